SPECIFICATION JSpec
INVARIANT Verdict
INVARIANT Counted
CHECK_DEADLOCK FALSE
