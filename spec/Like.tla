-------------------------------- MODULE Like --------------------------------
(***************************************************************************)
(* C09: the value a likelihood class has to return, as the property states *)
(* it -- a decision table over the *kind* of every value the model         *)
(* function delivers, and the exact value where the table says "value".    *)
(* DESIGN.md 3.11.  Nothing here is taken from likelihood.py.              *)
(*                                                                         *)
(*   gauss   : sum[(y-f)^2/(2 sigma^2) + ln(2 pi)/2 + ln sigma]            *)
(*   poisson : sum[f - y ln f]                                             *)
(*   mock    : sum[(sqrt(f)-y)^2/(2 sigma^2)]   (f is the model's H^2;     *)
(*             CCLikelihood has the same formula on a shipped data file)   *)
(*   mse     : mean[(y-f)^2]                                               *)
(*   "Whenever the prediction is complex, NaN or (Poisson) non-positive    *)
(*    the result is +infinity, never NaN."                                 *)
(*                                                                         *)
(* TLC has no reals: a value is the exact linear form                      *)
(*      q0 + q1 ln 2 + q2 ln 3 + q3 ln(2 pi)                               *)
(* <<q0,q1,q2,q3>> of rationals <<num, den>> in lowest terms, den > 0.     *)
(* Data, sigmas and (Poisson) predictions are 3-smooth integers            *)
(* 2^a 3^b, H^2 values are perfect squares, so every logarithm and square  *)
(* root that occurs is in the span (checked by ASSUME on the constants).   *)
(*                                                                         *)
(* The state machine has one state per case: choose the class (and whether *)
(* the model function raises), then append one data point and one model    *)
(* value per step.  The formulas are symmetric sums, so data points are    *)
(* appended in non-decreasing index order (multisets of data points, every *)
(* sequence of model values).                                              *)
(***************************************************************************)
EXTENDS Naturals, Integers, Sequences, FiniteSets, TLC, Json

CONSTANTS MaxLen,   \* longest data / prediction vector
          DataOf,   \* record  class |-> sequence of data points [y, sn, sd]  (sigma = sn/sd)
          PredOf,   \* record  class |-> sequence of model-function values [k, v] (kind, integer value or 0)
          Raising   \* classes for which the raising model function is enumerated too

AllClasses == {"gauss", "poisson", "mock", "mse"}
Classes    == DOMAIN DataOf
Finite     == {"neg", "zero", "pos"}
Special    == {"nan", "pinf", "ninf", "cplx"}
Kinds      == Finite \cup Special

---------------------------------------------------------------------------
(* integers: 3-smooth numbers and perfect squares *)
RECURSIVE Exp(_, _)      \* exponent of the prime p in n >= 1
Exp(n, p) == IF n % p = 0 THEN 1 + Exp(n \div p, p) ELSE 0
RECURSIVE Pow(_, _)
Pow(b, e) == IF e = 0 THEN 1 ELSE b * Pow(b, e - 1)
Smooth(n)   == n >= 1 /\ n = Pow(2, Exp(n, 2)) * Pow(3, Exp(n, 3))
IsSquare(n) == n >= 0 /\ \E r \in 0..n : r * r = n
Root(n)     == CHOOSE r \in 0..n : r * r = n
Sqr(n)      == n * n
Abs(n)      == IF n < 0 THEN -n ELSE n

(* rationals <<num, den>> *)
RECURSIVE Gcd(_, _)
Gcd(a, b)  == IF b = 0 THEN a ELSE Gcd(b, a % b)
Norm(q)    == LET g == Gcd(Abs(q[1]), q[2]) IN <<q[1] \div g, q[2] \div g>>     \* q[2] > 0
Q(n)       == <<n, 1>>
Add(p, q)  == Norm(<<p[1] * q[2] + q[1] * p[2], p[2] * q[2]>>)
Mul(p, q)  == Norm(<<p[1] * q[1], p[2] * q[2]>>)
IsRat(q)   == q[2] > 0 /\ Gcd(Abs(q[1]), q[2]) = 1
IsInt(q)   == q[2] = 1

(* linear forms <<q0, q1, q2, q3>> *)
Zero4       == <<Q(0), Q(0), Q(0), Q(0)>>
LAdd(a, b)  == <<Add(a[1], b[1]), Add(a[2], b[2]), Add(a[3], b[3]), Add(a[4], b[4])>>
LScale(a, q) == <<Mul(a[1], q), Mul(a[2], q), Mul(a[3], q), Mul(a[4], q)>>

---------------------------------------------------------------------------
(* The decision table: what the property says about one model value of kind k.
     "value"  : the documented formula has a finite value for this entry
     "stated" : the sentence "complex, NaN or (Poisson) non-positive => +infinity" applies to the prediction
     "limit"  : the prediction is infinite and the documented formula is +infinity there
                ((y-f)^2 -> +inf;  f - y ln f -> +inf as f -> +inf), and "never NaN"                     *)
Table(c, k) ==
  CASE c \in {"gauss", "mse"} ->
         (CASE k \in Finite          -> "value"
            [] k \in {"nan", "cplx"}  -> "stated"
            [] k \in {"pinf", "ninf"} -> "limit")
    [] c = "poisson" ->
         (CASE k = "pos"                                      -> "value"
            [] k \in {"neg", "zero", "ninf", "nan", "cplx"}   -> "stated"
            [] k = "pinf"                                     -> "limit")
    [] c = "mock" ->                  \* the prediction is the real square root of the model value
         (CASE k \in {"zero", "pos"}                  -> "value"
            [] k \in {"neg", "ninf", "nan", "cplx"}   -> "stated"
            [] k = "pinf"                             -> "limit")

(* the same, said a second time from the sentence of the property (cross-check of the table) *)
PredKind(c, k) ==      \* kind of the class's prediction for a model value of kind k
  IF c = "mock" THEN (IF k \in {"neg", "ninf"} THEN "nan" ELSE k) ELSE k
StatedInf(c, k) == LET p == PredKind(c, k) IN
     p \in {"cplx", "nan"} \/ (c = "poisson" /\ p \in {"neg", "zero", "ninf"})
LimitInf(c, k)  == ~StatedInf(c, k) /\ PredKind(c, k) \in {"pinf", "ninf"}
ASSUME TableIsTheProperty ==
  \A c \in AllClasses, k \in Kinds :
     /\ (Table(c, k) = "stated") = StatedInf(c, k)
     /\ (Table(c, k) = "limit")  = LimitInf(c, k)
     /\ Table(c, k) \in {"value", "stated", "limit"}

(* classes whose prediction comes from Likelihood.get_pred, documented to fall back to +inf
   when the model function raises; for the others the property is silent about such a model *)
Fallback == {"gauss", "poisson", "mse"}

---------------------------------------------------------------------------
(* exact value of one term; d = [y, sn, sd], e = [k, v] with Table(c, e.k) = "value" *)
Term(c, d, e) ==
  CASE c = "gauss"   -> <<Norm(<<Sqr(d.y - e.v) * Sqr(d.sd), 2 * Sqr(d.sn)>>),
                          Q(Exp(d.sn, 2) - Exp(d.sd, 2)), Q(Exp(d.sn, 3) - Exp(d.sd, 3)), <<1, 2>>>>
    [] c = "poisson" -> <<Q(e.v), Q(-(d.y * Exp(e.v, 2))), Q(-(d.y * Exp(e.v, 3))), Q(0)>>
    [] c = "mock"    -> <<Norm(<<Sqr(Root(e.v) - d.y) * Sqr(d.sd), 2 * Sqr(d.sn)>>), Q(0), Q(0), Q(0)>>
    [] c = "mse"     -> <<Q(Sqr(d.y - e.v)), Q(0), Q(0), Q(0)>>

RECURSIVE SumTerms(_, _, _, _)
SumTerms(c, ds, es, n) == IF n = 0 THEN Zero4 ELSE LAdd(SumTerms(c, ds, es, n - 1), Term(c, ds[n], es[n]))

Lin(c, ds, es) == LET s == SumTerms(c, ds, es, Len(ds)) IN
                  IF c = "mse" THEN LScale(s, <<1, Len(ds)>>) ELSE s

Why(c, es) == [i \in 1..Len(es) |-> Table(c, es[i].k)]

(* the required result of negloglike: "INF" (+infinity), "VALUE" (the linear form), or "FREE"
   (the property demands only: not NaN) *)
Req(c, es, raises) ==
  IF raises THEN (IF c \in Fallback THEN "INF" ELSE "FREE")
  ELSE IF \E i \in 1..Len(es) : Table(c, es[i].k) # "value" THEN "INF" ELSE "VALUE"

Value(c, ds, es, raises) == IF Req(c, es, raises) = "VALUE" THEN Lin(c, ds, es) ELSE Zero4

---------------------------------------------------------------------------
(* admissible constants: every logarithm / square root is in the span *)
DataOK(c, d) == /\ d.y \in Int /\ Smooth(d.sn) /\ Smooth(d.sd)
                /\ (c = "poisson" => d.y >= 0)
PredOK(c, e) == /\ e.k \in Kinds
                /\ (e.k = "neg" => e.v < 0) /\ (e.k = "zero" => e.v = 0) /\ (e.k = "pos" => e.v > 0)
                /\ (e.k \in Special => e.v = 0)
                /\ (c = "poisson" /\ e.k = "pos" => Smooth(e.v))
                /\ (c = "mock" /\ e.k = "pos" => IsSquare(e.v))
ASSUME ConstantsOK ==
  /\ MaxLen \in Nat /\ Classes \subseteq AllClasses /\ DOMAIN PredOf = Classes /\ Raising \subseteq Classes
  /\ \A c \in Classes : /\ \A i \in 1..Len(DataOf[c]) : DataOK(c, DataOf[c][i])
                        /\ \A j \in 1..Len(PredOf[c]) : PredOK(c, PredOf[c][j])

---------------------------------------------------------------------------
VARIABLES cls,     \* the likelihood class
          di,      \* data vector: indices into DataOf[cls], non-decreasing
          pred,    \* values of the model function at the data points (empty while exc)
          exc      \* TRUE: the model function raises an exception instead of returning
vars == <<cls, di, pred, exc>>

Init == /\ cls \in Classes
        /\ di = <<>> /\ pred = <<>>
        /\ exc \in {FALSE} \cup (IF cls \in Raising THEN {TRUE} ELSE {})

Grow == /\ Len(di) < MaxLen
        /\ \E i \in 1..Len(DataOf[cls]) :
             /\ (IF di = <<>> THEN TRUE ELSE i >= di[Len(di)])
             /\ di' = Append(di, i)
        /\ IF exc THEN pred' = pred
           ELSE \E j \in 1..Len(PredOf[cls]) : pred' = Append(pred, PredOf[cls][j])
        /\ UNCHANGED <<cls, exc>>

Spec == Init /\ [][Grow]_vars

Data     == [i \in 1..Len(di) |-> DataOf[cls][di[i]]]
Complete == Len(di) >= 1

---------------------------------------------------------------------------
(* invariants of the model *)
TypeOK == /\ cls \in Classes /\ exc \in BOOLEAN /\ Len(di) <= MaxLen
          /\ (exc => pred = <<>>) /\ (~exc => Len(pred) = Len(di))

ReqOf == Req(cls, pred, exc)
ValOf == Value(cls, Data, pred, exc)

(* +infinity exactly when some entry falls under the property's second sentence or makes the formula infinite *)
InfIffBadEntry ==
  (Complete /\ ~exc) =>
     ((ReqOf = "INF") <=> (\E i \in 1..Len(pred) : StatedInf(cls, pred[i].k) \/ LimitInf(cls, pred[i].k)))
(* ... and never because of the data, never in a case where every prediction is an ordinary real of the class's domain *)
OrdinaryIsValue ==
  (Complete /\ ~exc) =>
     ((\A i \in 1..Len(pred) : /\ pred[i].k \in Finite
                               /\ (cls = "poisson" => pred[i].k = "pos")
                               /\ (cls = "mock" => pred[i].k # "neg")) <=> (ReqOf = "VALUE"))
LinWellFormed == Complete => \A i \in 1..4 : IsRat(ValOf[i])
(* shape of the value per class *)
LinShape ==
  (Complete /\ ReqOf = "VALUE") =>
     LET v == ValOf n == Len(di) IN
     /\ IsInt(v[2]) /\ IsInt(v[3])
     /\ (cls \in {"mock", "mse"} => v[2] = Q(0) /\ v[3] = Q(0) /\ v[4] = Q(0))
     /\ (cls = "gauss"   => v[4] = Norm(<<n, 2>>))
     /\ (cls = "poisson" => v[4] = Q(0) /\ IsInt(v[1]) /\ v[1][1] > 0)
     /\ (cls # "poisson" => v[1][1] >= 0)
(* a sum of squares vanishes exactly on a perfect fit *)
ZeroIffPerfectFit ==
  (Complete /\ ReqOf = "VALUE" /\ cls # "poisson") =>
     ((ValOf[1] = Q(0)) <=> \A i \in 1..Len(di) :
          (IF cls = "mock" THEN Root(pred[i].v) ELSE pred[i].v) = Data[i].y)
RaiseRule == (Complete /\ exc) => (ReqOf = IF cls \in Fallback THEN "INF" ELSE "FREE")

(* every case is printed for the replay against the real classes (binding A) *)
Emit == Complete =>
   PrintT(ToJson([cls |-> cls, data |-> Data, pred |-> pred, exc |-> exc,
                  req |-> ReqOf, why |-> Why(cls, pred), lin |-> ValOf]))
=============================================================================
