SPECIFICATION Spec
INVARIANT LostNeverRegular
INVARIANT EmitCases
CHECK_DEADLOCK FALSE
CONSTRAINT SqAtMostOnce
