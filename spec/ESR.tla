-------------------------------- MODULE ESR --------------------------------
(***************************************************************************)
(* Composition of the pipeline stages over abstract values (DESIGN.md      *)
(* 3.12, C04).  Gen yields uniques and variants (each variant with a       *)
(* parameter map that is empty, recoverable or unrecoverable); Fit returns *)
(* the minimum -log L per unique; Fisher/Match transfer the parameter code *)
(* (Subs!Transfer is exact for recoverable maps, so a variant's code is    *)
(* its own independent code; unrecoverable -> INF); Combine is Rank!RefOut.*)
(* Theorem (TopNotBeaten): the top row's description length is <= the      *)
(* independent description length of every tree whose map is recoverable.  *)
(* GuardDefect = TRUE models the guard of match.py:90 as it was before the *)
(* repair (every non-empty map gets INF): the theorem then fails, which is *)
(* the model-level image of that defect.                                   *)
(***************************************************************************)
EXTENDS Naturals, Integers, Sequences, FiniteSets, TLC

CONSTANTS U, K, NllV, PlenV, TlenV, GuardDefect
VARIABLES lib      \* sequence of variants [idx, map, plenI, tlen]; nllOf[u] chosen with the first variant of u
          , nllOf
vars == <<lib, nllOf>>
R == INSTANCE Rank WITH tab <- <<>>
INF == R!INF
NAN == R!NAN
Maps == {"empty", "recoverable", "lost"}

Init == lib = <<>> /\ nllOf \in [0..(U - 1) -> NllV]
Add == /\ Len(lib) < K
       /\ \E u \in 0..(U - 1), m \in Maps, p \in PlenV, t \in TlenV :
            lib' = Append(lib, [idx |-> u, map |-> m, plenI |-> p, tlen |-> t])
       /\ UNCHANGED nllOf
Spec == Init /\ [][Add]_vars

(* Match: the parameter code a variant receives *)
PlenMatch(v) == IF v.map = "lost" THEN INF
                ELSE IF GuardDefect /\ v.map # "empty" THEN INF
                ELSE v.plenI
Table == [k \in 1..Len(lib) |-> [idx |-> lib[k].idx, nll |-> nllOf[lib[k].idx], plen |-> PlenMatch(lib[k]), tlen |-> lib[k].tlen]]
DLindep(v) == R!Plus(R!Plus(nllOf[v.idx], v.plenI), v.tlen)

TopNotBeaten ==
  LET out == R!RefOut(Table) IN
    \A k \in 1..Len(lib) :
       (lib[k].map # "lost" /\ R!Fin(DLindep(lib[k]))) => (Len(out) > 0 /\ R!Leq(out[1].dl, DLindep(lib[k])))
RowsReproducible ==
  LET out == R!RefOut(Table) IN
    \A i \in 1..Len(out) : R!Fin(out[i].dl) => out[i].dl = R!Plus(R!Plus(out[i].nll, out[i].plen), out[i].tlen)
=============================================================================
