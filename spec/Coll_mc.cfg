SPECIFICATION Spec
CONSTANTS
  P = 3
  Programs <- MCPrograms
INVARIANT Matched
INVARIANT NoOrphan
INVARIANT Confluent
CHECK_DEADLOCK FALSE
