----------------------------- MODULE RankJudge -----------------------------
(* TLC decides Rank!Combine(input table, observed final table) for every recorded run of combine_DL. *)
EXTENDS Naturals, Integers, Sequences, FiniteSets, TLC, Json, IOUtils
Cases == ndJsonDeserialize(IOEnv.CASES)
VARIABLE ji
JInit == ji = 1
JNext == ji < Len(Cases) /\ ji' = ji + 1
JSpec == JInit /\ [][JNext]_ji
R == INSTANCE Rank WITH U <- 0, K <- 0, NllV <- {}, PlenV <- {}, TlenV <- {}, tab <- <<>>
Verdict == LET c == Cases[ji] v == R!ClausesFor(0..(c.U - 1), c.tab, c.rows, c.obs) IN
             v = {} \/ PrintT(ToJson([id |-> c.id, failed |-> v]))
Counted == (ji = Len(Cases)) => PrintT(ToJson([judged |-> ji]))
=============================================================================
