SPECIFICATION Spec
INVARIANT NonEmptyAdmissible
INVARIANT AllSmallWhenFinite
INVARIANT EmitCase
CHECK_DEADLOCK FALSE
