--------------------------------- MODULE FS ---------------------------------
(***************************************************************************)
(* Directories as state shared by the ranks (DESIGN.md 3.4).               *)
(*                                                                         *)
(* Phase 1 - start-up of a fitting stage: every rank constructs the        *)
(*   likelihood; the constructor looks at its output directory and creates *)
(*   it when missing (likelihood.py:43-44).  IsDir and MkDir are separate  *)
(*   steps of a rank, so TLC explores the check-then-act race.  With       *)
(*   Atomic = TRUE the creation is an idempotent "ensure directory".       *)
(* Phase 2 - get_functions: rank 0 creates the three output directories,   *)
(*   everybody meets in a barrier, then every rank writes its own partial  *)
(*   file into the temporary directory (test_all.py:71-77, 405-411).       *)
(*   UseBarrier = FALSE shows what the barrier is for.                     *)
(*                                                                         *)
(* sched records the order in which ranks took their file-system steps;    *)
(* every terminal state is emitted and replayed on the real processes      *)
(* (binding C, schedule replay).                                           *)
(***************************************************************************)
EXTENDS Naturals, Sequences, FiniteSets, TLC, Json

CONSTANTS P, Atomic, UseBarrier, Phase2

Ranks == 0..(P - 1)
VARIABLES likeDir,    \* does the constructor's directory exist
          outDirs,    \* do the stage's output directories exist (created by rank 0)
          pc, seen, sched, atBarrier
vars == <<likeDir, outDirs, pc, seen, sched, atBarrier>>

Init == /\ likeDir = FALSE /\ outDirs = FALSE
        /\ pc = [r \in Ranks |-> "ctor"]
        /\ seen = [r \in Ranks |-> FALSE]
        /\ sched = <<>> /\ atBarrier = {}

Step(r) == sched' = Append(sched, r)

IsDir(r) == /\ pc[r] = "ctor"
            /\ seen' = [seen EXCEPT ![r] = likeDir]
            /\ pc' = [pc EXCEPT ![r] = IF likeDir THEN "constructed" ELSE "make"]
            /\ Step(r) /\ UNCHANGED <<likeDir, outDirs, atBarrier>>

MkDir(r) == /\ pc[r] = "make"
            /\ IF likeDir /\ ~Atomic
               THEN pc' = [pc EXCEPT ![r] = "failed"] /\ UNCHANGED likeDir     \* FileExistsError
               ELSE pc' = [pc EXCEPT ![r] = "constructed"] /\ likeDir' = TRUE
            /\ Step(r) /\ UNCHANGED <<seen, outDirs, atBarrier>>

(* phase 2 *)
MakeOut(r) == /\ Phase2 /\ pc[r] = "constructed" /\ r = 0
              /\ outDirs' = TRUE
              /\ pc' = [pc EXCEPT ![r] = "barrier"]
              /\ UNCHANGED <<likeDir, seen, sched, atBarrier>>
SkipOut(r) == /\ Phase2 /\ pc[r] = "constructed" /\ r # 0
              /\ pc' = [pc EXCEPT ![r] = "barrier"]
              /\ UNCHANGED <<likeDir, outDirs, seen, sched, atBarrier>>
Arrive(r) == /\ pc[r] = "barrier" /\ r \notin atBarrier
             /\ atBarrier' = atBarrier \cup {r}
             /\ UNCHANGED <<likeDir, outDirs, pc, seen, sched>>
Write(r) == /\ pc[r] = "barrier"
            /\ (UseBarrier => atBarrier = Ranks)
            /\ pc' = [pc EXCEPT ![r] = IF outDirs THEN "done" ELSE "failed"]
            /\ UNCHANGED <<likeDir, outDirs, seen, sched, atBarrier>>

Next == \E r \in Ranks : IsDir(r) \/ MkDir(r) \/ MakeOut(r) \/ SkipOut(r) \/ Arrive(r) \/ Write(r)
Spec == Init /\ [][Next]_vars

NoFailure == \A r \in Ranks : pc[r] # "failed"
Terminal  == ~ENABLED Next
EmitSchedule == Terminal => PrintT(ToJson([sched |-> sched, failed |-> {r \in Ranks : pc[r] = "failed"}]))
=============================================================================
