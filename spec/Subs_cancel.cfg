SPECIFICATION Spec
INVARIANT CancelPreserves
INVARIANT InvolutionsSquare
INVARIANT RoundTrip
INVARIANT LostNeverRegular
INVARIANT EmitChain
CHECK_DEADLOCK FALSE
INVARIANT ApplyHom
