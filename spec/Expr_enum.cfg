SPECIFICATION Spec
INVARIANT OnlyGrammar
INVARIANT DepthTracked
INVARIANT Emit
CHECK_DEADLOCK FALSE
