----------------------------- MODULE SubsProofs -----------------------------
(***************************************************************************)
(* Inverse-pair cancellation (C17) for chains of ANY length (TLAPS).       *)
(* Subs.tla transcribes simplify_inv_subs as Cancel and TLC checks         *)
(* CancelPreserves for every chain of <= 5 templates; what makes it true   *)
(* is independent of the length: the composition Comp of a chain is a      *)
(* monoid homomorphism (Comp(a \o b) = Comp(a) . Comp(b): Dedup.tla's      *)
(* ASSUME ComposeAppend checks it for the concrete Compose), so deleting   *)
(* two adjacent entries whose product is the identity - the same           *)
(* self-inverse substitution twice, which is the only thing Cancel deletes *)
(* - anywhere in a chain leaves the composition unchanged; and deleting    *)
(* anything else does not in general (OnlyInversePairs: if the composition *)
(* is unchanged for all contexts then the deleted product IS the identity).*)
(***************************************************************************)
EXTENDS Sequences, TLAPS

CONSTANTS G, Id, Mul(_, _), Comp(_)

ASSUME Monoid ==
  /\ Id \in G
  /\ \A a, b \in G : Mul(a, b) \in G
  /\ \A a, b, c \in G : Mul(Mul(a, b), c) = Mul(a, Mul(b, c))
  /\ \A a \in G : Mul(a, Id) = a /\ Mul(Id, a) = a
ASSUME Hom ==
  /\ \A c \in Seq(G) : Comp(c) \in G
  /\ Comp(<< >>) = Id
  /\ \A c, d \in Seq(G) : Comp(c \o d) = Mul(Comp(c), Comp(d))

THEOREM CancelPair ==
  ASSUME NEW u \in Seq(G), NEW v \in Seq(G), NEW w \in Seq(G), Comp(w) = Id
  PROVE  Comp(u \o w \o v) = Comp(u \o v)
<1>1. u \o w \in Seq(G)  OBVIOUS
<1>2. Comp(u \o w \o v) = Mul(Comp(u \o w), Comp(v))  BY <1>1, Hom
<1>3. Comp(u \o w) = Mul(Comp(u), Comp(w))  BY Hom
<1>4. Mul(Comp(u), Id) = Comp(u)  BY Hom, Monoid
<1>5. Comp(u \o v) = Mul(Comp(u), Comp(v))  BY Hom
<1> QED BY <1>2, <1>3, <1>4, <1>5

(* a pair of equal self-inverse substitutions is such a w *)
COROLLARY CancelSelfInverse ==
  ASSUME NEW u \in Seq(G), NEW v \in Seq(G), NEW g \in G, Mul(Comp(<<g>>), Comp(<<g>>)) = Id
  PROVE  Comp(u \o <<g, g>> \o v) = Comp(u \o v)
<1>1. <<g>> \in Seq(G) /\ <<g, g>> \in Seq(G)  OBVIOUS
<1>2. <<g, g>> = <<g>> \o <<g>>  OBVIOUS
<1>3. Comp(<<g, g>>) = Id  BY <1>1, <1>2, Hom
<1> QED BY <1>1, <1>3, CancelPair

(* the converse in the empty context: a deletion that preserves the composition deletes a chain composing to what a cancellation may delete *)
THEOREM OnlyInversePairs ==
  ASSUME NEW w \in Seq(G), \A u, v \in Seq(G) : Comp(u \o w \o v) = Comp(u \o v)
  PROVE  Comp(w) = Id
<1>1. << >> \in Seq(G)  OBVIOUS
<1>2. Comp(<< >> \o w \o << >>) = Comp(<< >> \o << >>)  BY <1>1
<1>3. << >> \o w \o << >> = w /\ << >> \o << >> = << >>  OBVIOUS
<1> QED BY <1>2, <1>3, Hom
=============================================================================
