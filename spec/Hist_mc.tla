------------------------------ MODULE Hist_mc ------------------------------
EXTENDS Hist
MCFiles == {"lib", "nll", "fish", "tmp", "other"}
MCCalls == {"gen", "fit", "fisher", "gen2"}
MCDeclared == [c \in MCCalls |-> CASE c = "gen" -> {} [] c = "fit" -> {"lib"} [] c = "fisher" -> {"lib", "nll"} [] c = "gen2" -> {}]
MCOutputs == [c \in MCCalls |-> CASE c = "gen" -> {"lib"} [] c = "fit" -> {"nll", "tmp"} [] c = "fisher" -> {"fish"} [] c = "gen2" -> {"other", "tmp"}]
=============================================================================
