SPECIFICATION PSpec
INVARIANT FitTiles
INVARIANT SplitTiles
INVARIANT NlsNonNeg
INVARIANT Balanced
INVARIANT ConcatIsIdentity
INVARIANT EmitPartition
CHECK_DEADLOCK FALSE
INVARIANT ClosedForm
INVARIANT DivModLaw
