SPECIFICATION HSpec
VIEW HView
INVARIANT HPost
INVARIANT HRunAgrees
INVARIANT EmitDone
CHECK_DEADLOCK FALSE
