---------------------------- MODULE FormulaJudge ----------------------------
(***************************************************************************)
(* Judge of observed string -> tree conversions (property C18), code ->    *)
(* spec direction: one state per recorded result of string_to_node,        *)
(* fit_from_string (relabelling, with and without replace_floats) and      *)
(* string_to_aifeyn; the verdict is the set of violated clauses.           *)
(*                                                                         *)
(* kind "conv" (one label list returned for one formula string):           *)
(*   labels, ar, cat   the list, the arity of every label (what the name   *)
(*                     means, -1 unknown), its category x | par | num | sym*)
(*   b1, b2            unary / binary operators of the basis               *)
(*   fparams           parameters the formula mentions                     *)
(*   complexity        reported complexity (-1: the entry reports none)    *)
(*   clsFormula,clsTree  P1 classes (-1 undecided)                         *)
(*   rf, plain, pcat   replace_floats requested; the list (and categories) *)
(*                     obtained for the same string without replacement    *)
(* kind "count": complexity reported by string_to_aifeyn, n labels         *)
(***************************************************************************)
EXTENDS Naturals, Integers, Sequences, FiniteSets, TLC, Json, IOUtils

T == INSTANCE Trees WITH N <- 1, B0 <- <<>>, B1 <- <<>>, B2 <- <<>>, Renumber <- FALSE,
                         st <- [phase |-> "idle"], shape <- <<>>, labels <- <<>>, nparam <- 0
F == INSTANCE Formula WITH U1 <- <<>>, U2 <- <<>>, Leaves <- {}, Sibs <- {}, SibDepth <- 0, MaxDepth <- 0,
                           t <- [d |-> 0]

Cases == ndJsonDeserialize(IOEnv.CASES)
VARIABLE ji
JInit == ji = 1
JNext == ji < Len(Cases) /\ ji' = ji + 1
JSpec == JInit /\ [][JNext]_ji

UNDECIDED == -1
Rng(s) == {s[k] : k \in 1..Len(s)}

(* a label belongs to the vocabulary: an operator of the basis used with its arity, x, a parameter, a number *)
InVocabulary(c, j) ==
  IF c.cat[j] = "sym"
  THEN \/ (c.labels[j] \in Rng(c.b1) /\ c.ar[j] = 1)
       \/ (c.labels[j] \in Rng(c.b2) /\ c.ar[j] = 2)
  ELSE c.ar[j] = 0

WellFormed(c) == Len(c.labels) > 0 /\ Len(c.ar) = Len(c.labels) /\ T!Valid(c.ar)
(* a label of unknown meaning (arity -1) is a vocabulary violation; the shape is then not decidable *)
ShapeKnown(c) == \A j \in 1..Len(c.ar) : c.ar[j] >= 0

(* positions whose label was turned into a parameter by the replacement *)
Replaced(c) == {j \in 1..Len(c.labels) : c.labels[j] # c.plain[j]}

ConvClauses(c) ==
  LET n == Len(c.labels) IN
    (IF ShapeKnown(c) /\ ~WellFormed(c) THEN {"well_formed"} ELSE {})
  \cup (IF \E j \in 1..n : ~InVocabulary(c, j) THEN {"vocabulary"} ELSE {})
  \cup (IF c.complexity # -1 /\ c.complexity # n THEN {"complexity_is_length"} ELSE {})
  \cup (IF c.clsFormula # UNDECIDED /\ c.clsTree # UNDECIDED /\ c.clsTree # c.clsFormula
        THEN {"same_function"} ELSE {})
    (* without a request no constant becomes a parameter: every parameter is one the formula mentions *)
  \cup (IF ~c.rf /\ \E j \in 1..n : c.cat[j] = "par" /\ c.labels[j] \notin Rng(c.fparams)
        THEN {"constants_keep_values"} ELSE {})
  \cup (IF c.rf THEN
          IF Len(c.plain) # n THEN {"replacement_changes_only_constants"} ELSE
            (* only numbers and parameters are renamed, and only into parameters *)
            (IF \E j \in Replaced(c) : ~(c.pcat[j] \in {"num", "par"} /\ c.cat[j] = "par")
             THEN {"replacement_changes_only_constants"} ELSE {})
            (* a number that is the exponent of a power is never replaced *)
       \cup (IF WellFormed(c) /\ \E j \in F!ExpPos(c.plain, c.ar) : c.pcat[j] = "num" /\ j \in Replaced(c)
             THEN {"no_parameter_in_exponent"} ELSE {})
            (* two different constants / parameters never share one new parameter *)
       \cup (IF \E i, j \in 1..n : c.cat[i] = "par" /\ c.labels[i] = c.labels[j] /\ c.plain[i] # c.plain[j]
             THEN {"replacement_keeps_constants_apart"} ELSE {})
        ELSE {})

(* not a clause of C18 as bound here (DESIGN.md 7 rule 1), only reported: a number somewhere inside an
   exponent sub-tree (not the exponent itself) was replaced *)
Noted(c) ==
  IF c.kind = "conv" /\ c.rf /\ Len(c.plain) = Len(c.labels) /\ WellFormed(c)
     /\ \E j \in F!InsideExp(c.plain, c.ar) \ F!ExpPos(c.plain, c.ar) : c.pcat[j] = "num" /\ j \in Replaced(c)
  THEN {"number_inside_exponent_subtree_replaced"} ELSE {}
(* likewise only reported: under replacement every parameter position gets its own new name, so a parameter
   that occurs twice becomes two parameters (the property speaks of numeric constants, not of this) *)
NotedSplit(c) ==
  IF c.kind = "conv" /\ c.rf /\ Len(c.plain) = Len(c.labels)
     /\ \E i, j \in 1..Len(c.labels) : c.pcat[i] = "par" /\ c.plain[i] = c.plain[j] /\ c.labels[i] # c.labels[j]
  THEN {"repeated_parameter_split_by_replacement"} ELSE {}

CountClauses(c) == IF c.complexity # c.n THEN {"complexity_is_length"} ELSE {}

Clauses(c) == CASE c.kind = "conv"  -> ConvClauses(c)
                [] c.kind = "count" -> CountClauses(c)
                [] OTHER            -> {"unknown_kind"}

Verdict == LET c == Cases[ji] v == Clauses(c) w == Noted(c) \cup NotedSplit(c) IN
             /\ (v = {} \/ PrintT(ToJson([id |-> c.id, failed |-> v])))
             /\ (w = {} \/ PrintT(ToJson([id |-> c.id, noted |-> w])))
Counted == (ji = Len(Cases)) => PrintT(ToJson([judged |-> ji]))
=============================================================================
