------------------------------ MODULE Coll_mc ------------------------------
EXTENDS Coll
Calls == {[op |-> o, root |-> rt] : o \in {"bcast", "gather", "barrier"}, rt \in {0}} \cup {[op |-> "scatter", root |-> 0]}
RECURSIVE SeqsUpTo(_, _)
SeqsUpTo(S, n) == IF n = 0 THEN {<<>>} ELSE SeqsUpTo(S, n - 1) \cup {Append(s, c) : s \in SeqsUpTo(S, n - 1), c \in S}
MCPrograms == SeqsUpTo(Calls, 3)
=============================================================================
