---------------------------- MODULE RewriteJudge ----------------------------
(***************************************************************************)
(* Judge of observations of the real find_additional_trees against         *)
(* Rewrite.tla (binding B, code -> spec): one state per recorded case, the *)
(* verdict of a case is the set of violated clauses.                       *)
(*                                                                         *)
(* kind "rewrite": one member new_labels[idx] (idx >= 1) of the list the   *)
(*                 driver returned for the TLC-enumerated tree `orig`.     *)
(*   b0,b1,b2  basis          orig,new  label lists                        *)
(*   wit       integer witnesses for the labels of new (0 = none)          *)
(*   ar        arities of new by P1's operator table (9 = unknown to P1)   *)
(*   types     node types of the Node list returned with new               *)
(*   clsOrig, clsNew   P1 class ids (-1 undecided)                         *)
(* kind "tree": what the driver did for one tree.                          *)
(*   returned  the call came back with a list (no exception, no watchdog)  *)
(*   lids      interned ids of the returned label lists, oid id of input   *)
(***************************************************************************)
EXTENDS Naturals, Integers, Sequences, FiniteSets, TLC, Json, IOUtils

R == INSTANCE Rewrite WITH K <- 1, rel <- {}, sem <- <<0>>, lst <- <<1>>, done <- TRUE

Cases == ndJsonDeserialize(IOEnv.CASES)
VARIABLE ji
JInit == ji = 1
JNext == ji < Len(Cases) /\ ji' = ji + 1
JSpec == JInit /\ [][JNext]_ji

RewriteClauses(c) ==
  LET B == <<c.b0, c.b1, c.b2>> IN
    (IF ~R!WellFormed(B, c.new, c.wit) THEN {"well_formed"} ELSE {})
  \cup (IF ~R!Vocabulary(B, c.new, c.wit) THEN {"vocabulary"} ELSE {})
  \cup (IF ~R!SameParams(c.orig, c.new) THEN {"same_parameters"} ELSE {})
  \cup (IF ~R!SameFunction(c.clsOrig, c.clsNew) THEN {"same_function"} ELSE {})
    (* the Node list handed back with the labels is the tree of those labels *)
  \cup (IF c.types # R!Arities(B, c.new, c.wit) THEN {"nodes_match_labels"} ELSE {})
    (* binding consistency: P1 evaluated the labels with the arities the basis gives them;
       a failure here (alone) is a fault of the harness tables, reported as machinery failure *)
  \cup (IF R!Vocabulary(B, c.new, c.wit) /\ c.ar # R!Arities(B, c.new, c.wit) THEN {"projection_arity"} ELSE {})

TreeClauses(c) ==
    (IF ~c.returned THEN {"driver_returns"} ELSE {})
  \cup (IF c.returned /\ ~R!NoRepetition(c.lids) THEN {"no_repetition"} ELSE {})
  \cup (IF c.returned /\ ~R!FirstIsOriginal(c.lids, c.oid) THEN {"first_is_original"} ELSE {})
  \cup (IF c.returned /\ Len(c.lids) # c.nrewrites + 1 THEN {"one_record_per_rewrite"} ELSE {})

Clauses(c) == CASE c.kind = "rewrite" -> RewriteClauses(c)
                [] c.kind = "tree"    -> TreeClauses(c)
                [] OTHER              -> {"unknown_kind"}

Verdict == LET c == Cases[ji] v == Clauses(c) IN
             v = {} \/ PrintT(ToJson([id |-> c.id, failed |-> v]))
Counted == (ji = Len(Cases)) => PrintT(ToJson([judged |-> ji]))
=============================================================================
