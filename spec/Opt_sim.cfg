SPECIFICATION SimSpec
INVARIANT HPost
INVARIANT EmitDone
CHECK_DEADLOCK FALSE
