----------------------------- MODULE Partition -----------------------------
(***************************************************************************)
(* Index ranges used to split work among P ranks.  DESIGN.md 3.2           *)
(*   SplitIdx  : utils.split_idx = numpy.array_split  (generation, subs)   *)
(*   FitSlice  : test_all.get_functions  (all fitting stages), with the    *)
(*               "correcting for many cores" while loop as explicit steps. *)
(* A slice is <<lo, hi>> with hi exclusive; ranks are 0..P-1.              *)
(***************************************************************************)
EXTENDS PartitionDefs, Sequences, FiniteSets, TLC, Json

CONSTANTS MaxN, MaxP

(* SectionSize, Min, CeilDiv, SplitLoC, FitLo/FitHi and the get_functions machine are in PartitionDefs.tla *)
RECURSIVE SplitLo(_, _, _)
SplitLo(n, r, p) == IF r = 0 THEN 0 ELSE SplitLo(n, r - 1, p) + SectionSize(n, r - 1, p)
SplitIdx(n, r, p) == <<SplitLo(n, r, p), SplitLo(n, r, p) + SectionSize(n, r, p)>>


(* the property (C14): contiguous, in rank order, disjoint, cover 0..N-1, empty only as lo = hi *)
Tiles(sl, n, p) ==
  /\ Len(sl) = p
  /\ sl[1][1] = 0
  /\ sl[p][2] = n
  /\ \A r \in 1..p : sl[r][1] <= sl[r][2]
  /\ \A r \in 1..(p - 1) : sl[r][2] = sl[r + 1][1]
TilesClauses(sl, n, p) ==
    (IF Len(sl) # p THEN {"one_slice_per_rank"} ELSE
       (IF sl[1][1] # 0 THEN {"starts_at_zero"} ELSE {})
  \cup (IF sl[p][2] # n THEN {"ends_at_N"} ELSE {})
  \cup (IF \E r \in 1..p : sl[r][1] > sl[r][2] THEN {"negative_slice"} ELSE {})
  \cup (IF \E r \in 1..(p - 1) : sl[r][2] # sl[r + 1][1] THEN {"contiguous_in_rank_order"} ELSE {}))

---------------------------------------------------------------------------
(* get_functions as a small state machine: one behaviour per (N, P) *)

PInit == /\ N \in 0..MaxN /\ P \in 1..MaxP
         /\ nLs = 0 /\ pc = "ceil"
PSpec == PInit /\ [][PNext]_pvars

(* Python slicing fcn_list[start:end] clips at N *)
FitSliceOf(n, r, p, k) == <<FitLo(n, r, k), FitHi(n, r, p, k)>>
FitSlices == [r \in 1..P |-> FitSliceOf(N, r - 1, P, nLs)]
SplitSlices(n, p) == [r \in 1..p |-> SplitIdx(n, r - 1, p)]

FitTiles   == pc = "done" => Tiles(FitSlices, N, P)
SplitTiles == pc = "ceil" => Tiles(SplitSlices(N, P), N, P)
(* the closed forms PartitionProofs.tla reasons about are the running sums the code computes *)
ClosedForm == pc = "ceil" => \A r \in 0..P : SplitLo(N, r, P) = SplitLoC(N, r, P)
(* the defining law of \div and % that the proofs take from the SMT back end, evaluated by TLC as well *)
DivModLaw  == pc = "ceil" => /\ N = P * (N \div P) + (N % P) /\ (N % P) \in 0..(P - 1)
Balanced   == pc = "ceil" => LET sl == SplitSlices(N, P) sz == [r \in 1..P |-> sl[r][2] - sl[r][1]] IN
                 \A r, q \in 1..P : sz[r] - sz[q] \in {-1, 0, 1}
(* concatenating per-rank maps in rank order equals the sequential map: a consequence of Tiles,
   checked directly on the identity map *)
RECURSIVE Concat(_, _)
Concat(sl, r) == IF r = 0 THEN <<>> ELSE Concat(sl, r - 1) \o [k \in 1..(sl[r][2] - sl[r][1]) |-> sl[r][1] + k - 1]
ConcatIsIdentity == pc = "done" => Concat(FitSlices, P) = [k \in 1..N |-> k - 1]
EmitPartition == pc = "done" => PrintT(ToJson([N |-> N, P |-> P, fit |-> FitSlices, split |-> SplitSlices(N, P)]))
=============================================================================
