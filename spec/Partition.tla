----------------------------- MODULE Partition -----------------------------
(***************************************************************************)
(* Index ranges used to split work among P ranks.  DESIGN.md 3.2           *)
(*   SplitIdx  : utils.split_idx = numpy.array_split  (generation, subs)   *)
(*   FitSlice  : test_all.get_functions  (all fitting stages), with the    *)
(*               "correcting for many cores" while loop as explicit steps. *)
(* A slice is <<lo, hi>> with hi exclusive; ranks are 0..P-1.              *)
(***************************************************************************)
EXTENDS Naturals, Integers, Sequences, FiniteSets, TLC, Json

CONSTANTS MaxN, MaxP

(* numpy.array_split: the first N % P sections get N \div P + 1 elements *)
SectionSize(N, r, P) == (N \div P) + (IF r < (N % P) THEN 1 ELSE 0)
RECURSIVE SplitLo(_, _, _)
SplitLo(N, r, P) == IF r = 0 THEN 0 ELSE SplitLo(N, r - 1, P) + SectionSize(N, r - 1, P)
SplitIdx(N, r, P) == <<SplitLo(N, r, P), SplitLo(N, r, P) + SectionSize(N, r, P)>>

Min(a, b) == IF a < b THEN a ELSE b
CeilDiv(a, b) == (a + b - 1) \div b

(* the property (C14): contiguous, in rank order, disjoint, cover 0..N-1, empty only as lo = hi *)
Tiles(sl, N, P) ==
  /\ Len(sl) = P
  /\ sl[1][1] = 0
  /\ sl[P][2] = N
  /\ \A r \in 1..P : sl[r][1] <= sl[r][2]
  /\ \A r \in 1..(P - 1) : sl[r][2] = sl[r + 1][1]
TilesClauses(sl, N, P) ==
    (IF Len(sl) # P THEN {"one_slice_per_rank"} ELSE
       (IF sl[1][1] # 0 THEN {"starts_at_zero"} ELSE {})
  \cup (IF sl[P][2] # N THEN {"ends_at_N"} ELSE {})
  \cup (IF \E r \in 1..P : sl[r][1] > sl[r][2] THEN {"negative_slice"} ELSE {})
  \cup (IF \E r \in 1..(P - 1) : sl[r][2] # sl[r + 1][1] THEN {"contiguous_in_rank_order"} ELSE {}))

---------------------------------------------------------------------------
(* get_functions as a small state machine: one behaviour per (N, P) *)
VARIABLES N, P, nLs, pc
pvars == <<N, P, nLs, pc>>

PInit == /\ N \in 0..MaxN /\ P \in 1..MaxP
         /\ nLs = 0 /\ pc = "ceil"
Ceil    == pc = "ceil" /\ nLs' = CeilDiv(N, P) /\ pc' = "loop" /\ UNCHANGED <<N, P>>
Correct == pc = "loop" /\ nLs * (P - 1) > N /\ nLs' = nLs - 1 /\ UNCHANGED <<N, P, pc>>
Exit    == pc = "loop" /\ ~(nLs * (P - 1) > N) /\ pc' = "done" /\ UNCHANGED <<N, P, nLs>>
PNext == Ceil \/ Correct \/ Exit
PSpec == PInit /\ [][PNext]_pvars

(* Python slicing fcn_list[start:end] clips at N *)
FitSliceOf(n, r, p, k) == <<Min(r * k, n), IF r = p - 1 THEN n ELSE Min((r + 1) * k, n)>>
FitSlices == [r \in 1..P |-> FitSliceOf(N, r - 1, P, nLs)]
SplitSlices(n, p) == [r \in 1..p |-> SplitIdx(n, r - 1, p)]

FitTiles   == pc = "done" => Tiles(FitSlices, N, P)
SplitTiles == pc = "ceil" => Tiles(SplitSlices(N, P), N, P)
NlsNonNeg  == nLs >= 0
Balanced   == pc = "ceil" => LET sl == SplitSlices(N, P) sz == [r \in 1..P |-> sl[r][2] - sl[r][1]] IN
                 \A r, q \in 1..P : sz[r] - sz[q] \in {-1, 0, 1}
(* concatenating per-rank maps in rank order equals the sequential map: a consequence of Tiles,
   checked directly on the identity map *)
RECURSIVE Concat(_, _)
Concat(sl, r) == IF r = 0 THEN <<>> ELSE Concat(sl, r - 1) \o [k \in 1..(sl[r][2] - sl[r][1]) |-> sl[r][1] + k - 1]
ConcatIsIdentity == pc = "done" => Concat(FitSlices, P) = [k \in 1..N |-> k - 1]
EmitPartition == pc = "done" => PrintT(ToJson([N |-> N, P |-> P, fit |-> FitSlices, split |-> SplitSlices(N, P)]))
=============================================================================
