------------------------------- MODULE Dedup -------------------------------
(***************************************************************************)
(* Duplicate merging and parameter-map bookkeeping (DESIGN.md 3.5; C03,    *)
(* C15).  The algebra of functions is abstracted to a free action of a     *)
(* finite group G of parameter transformations:                            *)
(*   a STRING is a pair <<c, h>>: it denotes  x |-> U_c(x; h . theta)      *)
(*   (c: the family, h \in G: the parametrisation it is written in).       *)
(* Rewriting a string <<c,h>> into <<c,h'>> is sound with the recorded     *)
(* substitution g = h^-1 . h'  (theta_old = g theta_new).  A function i    *)
(* starts as <<cls0[i], h0[i]>> with an empty chain; the recorded chain    *)
(* c[i] (file order) composes to P = c[1] . c[2] ... and the library is    *)
(* EXACT for i iff  h0[i] . P = h of its unique  (MapExact).               *)
(*                                                                         *)
(* G here: sign flips of two parameters and their swap (order 8).  An      *)
(* element is <<p, s0, s1>>: (g theta)_k = s_k * theta_{p(k)} with p = 0   *)
(* (identity) or 1 (swap).                                                 *)
(*                                                                         *)
(* The actions follow simplifier.do_sympy / sympy_simplify one critical    *)
(* section at a time; a simplification step of a unique updates the sympy  *)
(* object, the recorded chain and the string by SEPARATE statements, and   *)
(* Timeout may fire between any two of them and runs the handler as        *)
(* written (restores string and object, NOT the chain).  CheckResults      *)
(* re-applies the recorded map and un-merges what it cannot verify.        *)
(***************************************************************************)
EXTENDS Naturals, Integers, Sequences, FiniteSets, TLC

CONSTANTS NF,           \* number of functions
          NC,           \* number of families
          MaxRounds,
          NBlocks,      \* time-limited blocks a unique passes through in one round (sympy_simplify has five in sequence)
          Faults,       \* maximal number of timeouts injected
          Repair        \* TRUE: CheckResults/Unmerge runs at the end (as the code does for compl > 2)

Fun == 1..NF
(* ---- the group ---- *)
G == {<<p, s0, s1>> : p \in {0, 1}, s0 \in {1, -1}, s1 \in {1, -1}}
Id == <<0, 1, 1>>
(* (a . b) theta = a (b theta):  (b theta)_k = sb_k theta_{pb(k)} ; (a v)_k = sa_k v_{pa(k)} *)
Pi(p, k) == IF p = 0 THEN k ELSE 1 - k
Sg(g, k) == IF k = 0 THEN g[2] ELSE g[3]
Mul(a, b) == <<(a[1] + b[1]) % 2,
               Sg(a, 0) * Sg(b, Pi(a[1], 0)),
               Sg(a, 1) * Sg(b, Pi(a[1], 1))>>
Inv(a) == CHOOSE b \in G : Mul(a, b) = Id
RECURSIVE Compose(_)
Compose(c) == IF c = <<>> THEN Id ELSE Mul(Head(c), Compose(Tail(c)))
Neg(j) == IF j = 0 THEN <<0, -1, 1>> ELSE <<0, 1, -1>>
Swap == <<1, 1, 1>>
(* what DedupProofs.tla (TLAPS: any group, any number of functions and rounds) assumes of G, checked here for the concrete G, and
   the homomorphism law that lets the proofs represent a recorded chain by its composition *)
ASSUME GroupLaws == /\ Id \in G
                    /\ \A a, b \in G : Mul(a, b) \in G
                    /\ \A a \in G : Inv(a) \in G /\ Mul(a, Inv(a)) = Id /\ Mul(Inv(a), a) = Id /\ Mul(a, Id) = a /\ Mul(Id, a) = a
                    /\ \A a, b, c \in G : Mul(Mul(a, b), c) = Mul(a, Mul(b, c))
SeqsG(n) == UNION {[1..m -> G] : m \in 0..n}
ASSUME ComposeAppend == \A c \in SeqsG(2), d \in SeqsG(2) : Compose(c \o d) = Mul(Compose(c), Compose(d))
(* canonical parametrisation of a family: the rewriting rules drive every string towards <<c, Id>> in steps *)
Rules(h) == {h} \cup {Mul(h, Neg(0)), Mul(h, Neg(1)), Mul(h, Swap)} \cup {Id}

VARIABLES h0, cls0,        \* the original functions (ghost)
          str,             \* str[i]   : current string of function i, <<c, h>>
          chain,           \* chain[i] : substitutions recorded so far for function i (all rounds, concatenated)
          round, pc,       \* control
          ustr, usym, uadd,\* per unique of the current round: string, sympy object, chain appended this round
          ustr0,           \* string of each unique at the start of the round (make_changes commits only if it changed)
          blk,             \* block number the current unique is in
          umatch,          \* umatch[i]: index of function i's unique in the current round
          cur, saved,      \* unique being simplified; <<string, object>> saved at block entry (the handler's copies)
          step,            \* sub-step inside the simplification block
          faults, unmerged
vars == <<h0, cls0, str, chain, round, pc, ustr, usym, uadd, ustr0, blk, umatch, cur, saved, step, faults, unmerged>>

(* the action is by left multiplication, so the first function may be taken in the canonical parametrisation (symmetry reduction) *)
Init == /\ cls0 \in [Fun -> 1..NC] /\ h0 \in {f \in [Fun -> G] : f[1] = Id}
        /\ str = [i \in Fun |-> <<cls0[i], h0[i]>>]
        /\ chain = [i \in Fun |-> <<>>]
        /\ round = 0 /\ pc = "unique"
        /\ ustr = <<>> /\ usym = <<>> /\ uadd = <<>> /\ ustr0 = <<>> /\ blk = 1 /\ umatch = [i \in Fun |-> 0]
        /\ cur = 0 /\ saved = <<>> /\ step = "idle" /\ faults = 0 /\ unmerged = {}

(* (1) unique strings in first-occurrence order, and the match index of every function (utils.get_unique_indexes) *)
FirstOcc == {i \in Fun : \A j \in Fun : j < i => str[j] # str[i]}
RECURSIVE SeqOf(_, _)
SeqOf(S, n) == IF n > NF THEN <<>> ELSE (IF n \in S THEN <<n>> ELSE <<>>) \o SeqOf(S, n + 1)
UniqIdx == SeqOf(FirstOcc, 1)                       \* function indices of the uniques, in order
Unique == /\ pc = "unique"
          /\ ustr' = [u \in 1..Len(UniqIdx) |-> str[UniqIdx[u]]]
          /\ usym' = ustr' /\ ustr0' = ustr' /\ blk' = 1
          /\ uadd' = [u \in 1..Len(UniqIdx) |-> <<>>]
          /\ umatch' = [i \in Fun |-> CHOOSE u \in 1..Len(UniqIdx) : str[UniqIdx[u]] = str[i]]
          /\ cur' = 1 /\ pc' = "simplify" /\ step' = "enter"
          /\ UNCHANGED <<h0, cls0, str, chain, round, saved, faults, unmerged>>

(* (2) one time-limited block per unique: object, then recorded chain, then string *)
Enter == /\ pc = "simplify" /\ step = "enter" /\ cur <= Len(ustr)
         /\ saved' = <<ustr[cur], usym[cur]>>
         /\ step' = "sym"
         /\ UNCHANGED <<h0, cls0, str, chain, round, pc, ustr, usym, uadd, ustr0, blk, umatch, cur, faults, unmerged>>
SetSym == /\ pc = "simplify" /\ step = "sym"
          /\ \E hn \in Rules(usym[cur][2]) : usym' = [usym EXCEPT ![cur] = <<usym[cur][1], hn>>]
          /\ step' = "chain"
          /\ UNCHANGED <<h0, cls0, str, chain, round, pc, ustr, uadd, ustr0, blk, umatch, cur, saved, faults, unmerged>>
AppendChain == /\ pc = "simplify" /\ step = "chain"
               /\ LET g == Mul(Inv(ustr[cur][2]), usym[cur][2]) IN      \* the true substitution of this rewrite
                    uadd' = [uadd EXCEPT ![cur] = IF g = Id THEN @ ELSE Append(@, g)]
               /\ step' = "str"
               /\ UNCHANGED <<h0, cls0, str, chain, round, pc, ustr, usym, ustr0, blk, umatch, cur, saved, faults, unmerged>>
SetStr == /\ pc = "simplify" /\ step = "str"
          /\ ustr' = [ustr EXCEPT ![cur] = usym[cur]]
          /\ step' = "exit"
          /\ UNCHANGED <<h0, cls0, str, chain, round, pc, usym, uadd, ustr0, blk, umatch, cur, saved, faults, unmerged>>
Exit == /\ pc = "simplify" /\ step = "exit"
        /\ IF blk < NBlocks THEN blk' = blk + 1 /\ cur' = cur /\ step' = "enter" /\ pc' = pc
           ELSE IF cur < Len(ustr) THEN blk' = 1 /\ cur' = cur + 1 /\ step' = "enter" /\ pc' = pc
           ELSE blk' = 1 /\ cur' = 0 /\ step' = "idle" /\ pc' = "propagate"
        /\ UNCHANGED <<h0, cls0, str, chain, round, ustr, usym, uadd, ustr0, umatch, saved, faults, unmerged>>
(* the fault: TimeoutException between two sub-steps; handler: str_fun[i] = orig_fun ; sym_fun[i] = orig_sym *)
Timeout == /\ pc = "simplify" /\ step \in {"sym", "chain", "str"} /\ faults < Faults
           /\ ustr' = [ustr EXCEPT ![cur] = saved[1]]
           /\ usym' = [usym EXCEPT ![cur] = saved[2]]
           /\ faults' = faults + 1 /\ step' = "exit"
           /\ UNCHANGED <<h0, cls0, str, chain, round, pc, uadd, ustr0, blk, umatch, cur, saved, unmerged>>

(* (3) replacements to the full list through the match index (do_sympy step 3) and the round log *)
(* make_changes (simplifier.py:130-153) commits a unique's new string, object and appended chain only if its STRING changed *)
Committed(u) == ustr[u] # ustr0[u]
Propagate == /\ pc = "propagate"
             /\ str' = [i \in Fun |-> ustr[umatch[i]]]
             /\ chain' = [i \in Fun |-> IF Committed(umatch[i]) THEN chain[i] \o uadd[umatch[i]] ELSE chain[i]]
             /\ round' = round + 1
             /\ pc' = IF (\A i \in Fun : ustr[umatch[i]] = str[i]) \/ round + 1 >= MaxRounds THEN "check" ELSE "unique"
             /\ UNCHANGED <<h0, cls0, ustr, usym, uadd, ustr0, blk, umatch, cur, saved, step, faults, unmerged>>

(* (4) check_results: re-apply the recorded map; a function whose map does not verify becomes its own unique
   with an empty map (un-merge) *)
Exact(i) == Mul(h0[i], Compose(chain[i])) = str[i][2]
CheckResults == /\ pc = "check"
                /\ IF Repair
                   THEN /\ unmerged' = {i \in Fun : ~Exact(i)}
                        /\ str' = [i \in Fun |-> IF Exact(i) THEN str[i] ELSE <<cls0[i], h0[i]>>]
                        /\ chain' = [i \in Fun |-> IF Exact(i) THEN chain[i] ELSE <<>>]
                   ELSE UNCHANGED <<unmerged, str, chain>>
                /\ pc' = "done"
                /\ UNCHANGED <<h0, cls0, round, ustr, usym, uadd, ustr0, blk, umatch, cur, saved, step, faults>>

Next == Unique \/ Enter \/ SetSym \/ AppendChain \/ SetStr \/ Exit \/ Timeout \/ Propagate \/ CheckResults
Spec == Init /\ [][Next]_vars

---------------------------------------------------------------------------
(* the library at the end *)
Done == pc = "done"
MapExact   == Done => \A i \in Fun : Exact(i)                    \* C03 / C15
SameFamily == \A i \in Fun : str[i][1] = cls0[i]                  \* a function never leaves its family
(* between rounds (no fault): every function is exact after every Propagate -- the inductive step that the
   per-round trace validation of real runs (DedupTrace) checks *)
RoundExact == (pc \in {"unique", "check"} /\ faults = 0) => \A i \in Fun : Exact(i)
=============================================================================
