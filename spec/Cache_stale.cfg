SPECIFICATION Spec
CONSTANT Protocol = FALSE
INVARIANT TypeOK
INVARIANT GridIncreasing
INVARIANT GridStartsAtOne
INVARIANT MaskCorrect
CHECK_DEADLOCK FALSE
