SPECIFICATION Spec
INVARIANT NoFailure
CHECK_DEADLOCK FALSE
