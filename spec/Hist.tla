-------------------------------- MODULE Hist --------------------------------
(***************************************************************************)
(* Call histories (DESIGN.md 3.10, C16).  A call reads files and           *)
(* (re)creates its outputs.  The content of an output is modelled as an    *)
(* uninterpreted function of the call and of the contents of everything    *)
(* the call READ; a call is history independent iff everything it reads    *)
(* (or appends to) is a declared input or was (re)created by the call      *)
(* itself (Indep).  Two runs are explored side by side: A performs a       *)
(* history of other calls and then the observed call X; B performs X from  *)
(* a directory that holds only X's declared inputs.  The theorem TLC       *)
(* checks: if X obeys Indep then A and B produce the same outputs; with a  *)
(* leaking call (Leak = TRUE: X also reads a file some other call may have *)
(* left behind) the outputs can differ -- so Indep is exactly what the     *)
(* trace validation of the real code (HistTrace.tla) has to establish.     *)
(***************************************************************************)
EXTENDS Naturals, Sequences, FiniteSets, TLC, Json

CONSTANTS Files,        \* file names
          Calls,        \* call names
          Declared,     \* [Calls -> SUBSET Files]  inputs a call is supposed to read
          Outputs,      \* [Calls -> SUBSET Files]  files a call (re)creates
          X,            \* the observed call
          Leak,         \* TRUE: X additionally reads LeakFile without declaring it
          LeakFile,
          MaxHist

Absent == <<"absent">>
VARIABLES fsA, fsB,     \* file -> content (a value tree) in run A / run B
          hist, phase
vars == <<fsA, fsB, hist, phase>>

Reads(c) == Declared[c] \cup (IF Leak /\ c = X THEN {LeakFile} ELSE {})
(* content produced by call c for output f from the contents it read *)
Produce(c, f, fs) == <<c, f, [g \in Reads(c) |-> fs[g]]>>
Run(c, fs) == [f \in Files |-> IF f \in Outputs[c] THEN Produce(c, f, fs) ELSE fs[f]]

Init == /\ fsA = [f \in Files |-> IF f \in Declared[X] THEN <<"given", f>> ELSE Absent]
        /\ fsB = fsA
        /\ hist = <<>> /\ phase = "history"
(* earlier calls of the history never touch X's declared inputs (same inputs is the premise of C16) *)
Earlier == /\ phase = "history" /\ Len(hist) < MaxHist
           /\ \E c \in Calls : /\ Outputs[c] \cap Declared[X] = {}
                               /\ fsA' = Run(c, fsA)
                               /\ hist' = Append(hist, c)
           /\ UNCHANGED <<fsB, phase>>
Observe == /\ phase = "history"
           /\ fsA' = Run(X, fsA) /\ fsB' = Run(X, fsB)
           /\ phase' = "done" /\ UNCHANGED hist
Next == Earlier \/ Observe
Spec == Init /\ [][Next]_vars
(* enumeration of histories for the replay on the real code: any earlier call (the harness hands the fresh run
   the observed call's actual input files, so a history that rewrites an input is still a fair comparison) *)
EarlierAny == /\ phase = "history" /\ Len(hist) < MaxHist
              /\ \E c \in Calls : fsA' = Run(c, fsA) /\ hist' = Append(hist, c)
              /\ UNCHANGED <<fsB, phase>>
EnumSpec == Init /\ [][EarlierAny \/ Observe]_vars
EmitHistory == phase = "done" => PrintT(ToJson([hist |-> hist, premise |-> \A k \in 1..Len(hist) : Outputs[hist[k]] \cap Declared[X] = {}]))

Indep(c) == Reads(c) \subseteq Declared[c] \cup Outputs[c]
SameOutputs == phase = "done" => \A f \in Outputs[X] : fsA[f] = fsB[f]
(* repeated identical calls are idempotent on their outputs *)
=============================================================================
