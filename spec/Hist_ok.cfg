SPECIFICATION Spec
CONSTANTS
  Files <- MCFiles
  Calls <- MCCalls
  Declared <- MCDeclared
  Outputs <- MCOutputs
  X = "fisher"
  Leak = FALSE
  LeakFile = "tmp"
  MaxHist = 3
INVARIANT SameOutputs
CHECK_DEADLOCK FALSE
