---------------------------- MODULE DedupProofs ----------------------------
(***************************************************************************)
(* The bookkeeping argument of Dedup.tla for ANY number of functions, ANY  *)
(* group of reparametrisations and ANY number of rounds (TLAPS).           *)
(*                                                                         *)
(* Dedup.tla (TLC, bounded: the order-8 group, 2-3 functions, <= 3 rounds) *)
(* keeps, per function i, the recorded CHAIN of substitutions; exactness   *)
(* only depends on its composition.  Here the chain is represented by that *)
(* composition acc[i] (Dedup!Compose(chain[i]); the homomorphism law       *)
(* Compose(c \o d) = Compose(c) . Compose(d) that justifies it is the TLC  *)
(* invariant Dedup!ComposeAppend).                                         *)
(*   Rewrite(i, hn)  a committed rewrite: string i goes from parametri-    *)
(*                   sation hs[i] to hn and g = hs[i]^-1 . hn is recorded  *)
(*   Torn(i, g)      what a timeout between "append to chain" and "set     *)
(*                   string" leaves behind: g recorded, string unchanged   *)
(*   Check           check_results: whatever does not verify is un-merged  *)
(* Theorems: without Torn steps every function is exact at all times       *)
(* (RoundExact); with Torn steps it is exact after Check (MapExact).        *)
(***************************************************************************)
EXTENDS TLAPS

CONSTANTS G, Id, Mul(_, _), Inv(_), Fun

ASSUME GroupAxioms ==
  /\ Id \in G
  /\ \A a, b \in G : Mul(a, b) \in G
  /\ \A a \in G : Inv(a) \in G
  /\ \A a, b, c \in G : Mul(Mul(a, b), c) = Mul(a, Mul(b, c))
  /\ \A a \in G : Mul(a, Id) = a /\ Mul(Id, a) = a
  /\ \A a \in G : Mul(a, Inv(a)) = Id /\ Mul(Inv(a), a) = Id

VARIABLES h0, hs, acc, torn, checked
vars == <<h0, hs, acc, torn, checked>>

TypeOK == /\ h0 \in [Fun -> G] /\ hs \in [Fun -> G] /\ acc \in [Fun -> G]
          /\ torn \in BOOLEAN /\ checked \in BOOLEAN
Init == /\ h0 \in [Fun -> G] /\ hs = h0 /\ acc = [i \in Fun |-> Id]
        /\ torn = FALSE /\ checked = FALSE
Rewrite(i, hn) == /\ ~checked
                  /\ hs' = [hs EXCEPT ![i] = hn]
                  /\ acc' = [acc EXCEPT ![i] = Mul(acc[i], Mul(Inv(hs[i]), hn))]
                  /\ UNCHANGED <<h0, torn, checked>>
Torn(i, g) == /\ ~checked
              /\ acc' = [acc EXCEPT ![i] = Mul(acc[i], g)]
              /\ torn' = TRUE
              /\ UNCHANGED <<h0, hs, checked>>
Exact(i) == Mul(h0[i], acc[i]) = hs[i]
Check == /\ ~checked
         /\ hs' = [i \in Fun |-> IF Exact(i) THEN hs[i] ELSE h0[i]]
         /\ acc' = [i \in Fun |-> IF Exact(i) THEN acc[i] ELSE Id]
         /\ checked' = TRUE
         /\ UNCHANGED <<h0, torn>>
Next == \/ \E i \in Fun, hn \in G : Rewrite(i, hn)
        \/ \E i \in Fun, g \in G : Torn(i, g)
        \/ Check
Spec == Init /\ [][Next]_vars

RoundExact == ~torn => \A i \in Fun : Exact(i)
MapExact   == checked => \A i \in Fun : Exact(i)
Inv1 == TypeOK /\ RoundExact /\ MapExact

LEMMA RewriteExact ==
  ASSUME NEW a \in G, NEW c \in G, NEW h \in G, NEW hn \in G, Mul(a, c) = h
  PROVE  Mul(a, Mul(c, Mul(Inv(h), hn))) = hn
<1>1. Mul(a, Mul(c, Mul(Inv(h), hn))) = Mul(Mul(a, c), Mul(Inv(h), hn))  BY GroupAxioms
<1>2. Mul(h, Mul(Inv(h), hn)) = Mul(Mul(h, Inv(h)), hn)  BY GroupAxioms
<1>3. Mul(Mul(h, Inv(h)), hn) = hn  BY GroupAxioms
<1> QED BY <1>1, <1>2, <1>3

THEOREM Safety == Spec => []Inv1
<1>1. Init => Inv1
  <2> SUFFICES ASSUME Init PROVE Inv1  OBVIOUS
  <2>1. TypeOK  BY GroupAxioms DEF Init, TypeOK
  <2>2. \A i \in Fun : Exact(i)  BY GroupAxioms DEF Init, Exact
  <2> QED BY <2>1, <2>2 DEF Inv1, RoundExact, MapExact, Init
<1>2. Inv1 /\ [Next]_vars => Inv1'
  <2> SUFFICES ASSUME Inv1, [Next]_vars PROVE Inv1'  OBVIOUS
  <2>1. ASSUME NEW i \in Fun, NEW hn \in G, Rewrite(i, hn) PROVE Inv1'
    <3>1. TypeOK'  BY <2>1, GroupAxioms DEF Inv1, TypeOK, Rewrite
    <3>2. MapExact'  BY <2>1 DEF Rewrite, MapExact
    <3>3. RoundExact'
      <4> SUFFICES ASSUME ~torn', NEW j \in Fun PROVE Exact(j)'  BY DEF RoundExact
      <4>1. ~torn /\ Exact(j)  BY <2>1 DEF Rewrite, Inv1, RoundExact
      <4>2. CASE j = i
        <5>1. hs'[i] = hn /\ acc'[i] = Mul(acc[i], Mul(Inv(hs[i]), hn)) /\ h0'[i] = h0[i]  BY <2>1 DEF Rewrite, Inv1, TypeOK
        <5>2. Mul(h0[i], acc[i]) = hs[i]  BY <4>1, <4>2 DEF Exact
        <5>3. h0[i] \in G /\ acc[i] \in G /\ hs[i] \in G  BY DEF Inv1, TypeOK
        <5>4. Mul(h0[i], Mul(acc[i], Mul(Inv(hs[i]), hn))) = hn  BY <5>2, <5>3, RewriteExact
        <5> QED BY <5>1, <5>4, <4>2 DEF Exact
      <4>3. CASE j # i
        <5>1. hs'[j] = hs[j] /\ acc'[j] = acc[j] /\ h0'[j] = h0[j]  BY <2>1, <4>3 DEF Rewrite, Inv1, TypeOK
        <5> QED BY <5>1, <4>1 DEF Exact
      <4> QED BY <4>2, <4>3
    <3> QED BY <3>1, <3>2, <3>3 DEF Inv1
  <2>2. ASSUME NEW i \in Fun, NEW g \in G, Torn(i, g) PROVE Inv1'
    <3>1. TypeOK'  BY <2>2, GroupAxioms DEF Inv1, TypeOK, Torn
    <3>2. MapExact'  BY <2>2 DEF Torn, MapExact
    <3>3. RoundExact'  BY <2>2 DEF Torn, RoundExact
    <3> QED BY <3>1, <3>2, <3>3 DEF Inv1
  <2>3. ASSUME Check PROVE Inv1'
    <3>1. TypeOK'  BY <2>3, GroupAxioms DEF Inv1, TypeOK, Check
    <3>2. \A j \in Fun : Exact(j)'
      <4> TAKE j \in Fun
      <4>1. h0'[j] = h0[j]  BY <2>3 DEF Check
      <4>2. CASE Exact(j)
        <5>1. hs'[j] = hs[j] /\ acc'[j] = acc[j]  BY <2>3, <4>2 DEF Check
        <5> QED BY <5>1, <4>1, <4>2 DEF Exact
      <4>3. CASE ~Exact(j)
        <5>1. hs'[j] = h0[j] /\ acc'[j] = Id  BY <2>3, <4>3 DEF Check
        <5>2. h0[j] \in G  BY DEF Inv1, TypeOK
        <5> QED BY <5>1, <5>2, <4>1, GroupAxioms DEF Exact
      <4> QED BY <4>2, <4>3
    <3> QED BY <3>1, <3>2 DEF Inv1, RoundExact, MapExact
  <2>4. CASE UNCHANGED vars
    BY <2>4 DEF vars, Inv1, TypeOK, RoundExact, MapExact, Exact
  <2> QED BY <2>1, <2>2, <2>3, <2>4 DEF Next
<1> QED BY <1>1, <1>2, PTL DEF Spec

COROLLARY Spec => [](checked => \A i \in Fun : Exact(i))
  BY Safety, PTL DEF Inv1, MapExact
=============================================================================
