SPECIFICATION Spec
INVARIANT TypeOK
INVARIANT ValueIsMinimum
INVARIANT WinnerAttains
INVARIANT SignArrayOfBest
INVARIANT StopsByNiter
INVARIANT MinimumSoFar
INVARIANT InfRule
INVARIANT ConvRule
INVARIANT CountBounded
INVARIANT AnswerShape
CHECK_DEADLOCK FALSE
