SPECIFICATION ShapeSpec
INVARIANT SuccessIffValid
INVARIANT PartIsPrefix
INVARIANT PruningSound
INVARIANT PreFilterSound
INVARIANT ParentsConsistent
INVARIANT EmitShape
CHECK_DEADLOCK FALSE
