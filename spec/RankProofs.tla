----------------------------- MODULE RankProofs -----------------------------
(***************************************************************************)
(* The link between the final table (C06, Rank.tla) and optimality (C04,   *)
(* ESR.tla) for tables of ANY size (TLAPS).  Rank.tla's TopIsMinimum and   *)
(* ESR.tla's TopNotBeaten are checked by TLC for <= 3 variants; the        *)
(* argument does not depend on the size: if the rows satisfy the clauses   *)
(* row_per_unique, minimum_over_variants and non_decreasing of             *)
(* Rank!Combine, the first row is not beaten by any variant with a         *)
(* comparable (non-NaN) description length.                                *)
(* Description lengths live in a set D with a total preorder Leq (the      *)
(* non-NaN IEEE values: naturals and +INF in Rank.tla).                    *)
(***************************************************************************)
EXTENDS Naturals, Sequences, TLAPS

CONSTANTS D, Leq(_, _),       \* comparable description lengths and their order
          V,                  \* the variants (rows of the per-function table) with a comparable DL
          Uq,                 \* the unique functions
          idx, dl             \* idx[v] \in Uq: the unique a variant belongs to;  dl[v] \in D: its description length

ASSUME Order ==
  /\ \A a, b, c \in D : Leq(a, b) /\ Leq(b, c) => Leq(a, c)
  /\ \A a \in D : Leq(a, a)
ASSUME Table == idx \in [V -> Uq] /\ dl \in [V -> D]

(* rows: the final table, a sequence of records [u, dl] *)
RowPerUnique(rows) == \A v \in V : \E i \in 1..Len(rows) : rows[i].u = idx[v]
MinOverVariants(rows) == \A i \in 1..Len(rows) : \A v \in V : idx[v] = rows[i].u => Leq(rows[i].dl, dl[v])
NonDecreasing(rows) == \A i, j \in 1..Len(rows) : i < j => Leq(rows[i].dl, rows[j].dl)
WellTyped(rows) == rows \in Seq([u : Uq, dl : D])

THEOREM TopNotBeaten ==
  ASSUME NEW rows, WellTyped(rows), RowPerUnique(rows), MinOverVariants(rows), NonDecreasing(rows), NEW v \in V
  PROVE  Len(rows) >= 1 /\ Leq(rows[1].dl, dl[v])
<1>1. PICK i \in 1..Len(rows) : rows[i].u = idx[v]  BY DEF RowPerUnique
<1>2. Len(rows) \in Nat /\ Len(rows) >= 1 /\ 1 \in 1..Len(rows)  BY <1>1 DEF WellTyped
<1>3. Leq(rows[i].dl, dl[v])  BY <1>1 DEF MinOverVariants
<1>4. rows[1].dl \in D /\ rows[i].dl \in D /\ dl[v] \in D  BY <1>1, <1>2, Table DEF WellTyped
<1>5. Leq(rows[1].dl, rows[i].dl)
  <2>1. CASE i = 1  BY <2>1, <1>4, Order
  <2>2. CASE i # 1
    <3>1. 1 < i  BY <2>2, <1>1, <1>2
    <3> QED BY <3>1, <1>1, <1>2 DEF NonDecreasing
  <2> QED BY <2>1, <2>2
<1> QED BY <1>2, <1>3, <1>4, <1>5, Order

(* and the clauses are needed: without the order clause the statement is not provable (self-test of the check) *)
=============================================================================
