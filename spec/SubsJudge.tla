----------------------------- MODULE SubsJudge -----------------------------
(***************************************************************************)
(* Judge of observations of the real parameter-map code against Subs.tla   *)
(* and Snap.tla (C05, C17).  Kinds of cases:                               *)
(*  "cancel"   : simplify_inv_subs(chain) returned `out` (templates)       *)
(*  "dup"      : a member of get_all_dup(k), projected: involution flag    *)
(*  "row"      : one element of the substitution file after a write/load   *)
(*               round trip, projected to flags                            *)
(*  "file"     : row counts of the round trip                              *)
(*  "transfer" : one row of codelen_matches for a (chain, theta, F) case   *)
(***************************************************************************)
EXTENDS Naturals, Integers, Sequences, FiniteSets, TLC, Json, IOUtils
Cases == ndJsonDeserialize(IOEnv.CASES)
VARIABLE ji
JInit == ji = 1
JNext == ji < Len(Cases) /\ ji' = ji + 1
JSpec == JInit /\ [][JNext]_ji

TestThetas == {<<<<2, 1>>, <<3, 1>>>>, <<<<-1, 2>>, <<3, 2>>>>, <<<<5, 3>>, <<-2, 1>>>>, <<<<-7, 4>>, <<-1, 3>>>>}
Sb == INSTANCE Subs WITH KP <- 2, Gens <- {}, MaxLen <- 0, Thetas <- TestThetas, Fishers <- {}, chain <- <<>>
Sn == INSTANCE Snap WITH KMax <- 3, k <- 1, small <- {}, curv <- <<>>, bad <- {}, stage <- "idle"

SubSeqOf(a, b) ==   \* a is obtained from b by deleting elements
  LET RECURSIVE Sub(_, _)
      Sub(i, j) == IF i > Len(a) THEN TRUE ELSE IF j > Len(b) THEN FALSE
                   ELSE IF a[i] = b[j] THEN Sub(i + 1, j + 1) ELSE Sub(i, j + 1)
  IN Sub(1, 1)

CancelClauses(c) ==
    (IF ~Sb!SameMap(c.out, c.chain) THEN {"composition_unchanged"} ELSE {})
  \cup (IF ~SubSeqOf(c.out, c.chain) THEN {"only_deletes"} ELSE {})
DupClauses(c) == IF ~c.involution THEN {"self_inverse"} ELSE {}
RowClauses(c) ==
    (IF ~c.sameLen THEN {"chain_length_kept"} ELSE {})
  \cup (IF ~c.nanKept THEN {"unrecoverable_stays_unrecoverable"} ELSE {})
  \cup (IF ~c.keysEqual THEN {"same_keys"} ELSE {})
  \cup (IF ~c.valuesEqual THEN {"equivalent_values"} ELSE {})
  \cup (IF ~c.formOK THEN {"entry_form_follows_mode"} ELSE {})      \* use_sympy: dictionaries of sympy objects; otherwise the text; nan either way
FileClauses(c) == IF c.written # c.loaded THEN {"row_i_stays_row_i"} ELSE {}
SetOf(s) == {s[i] : i \in 1..Len(s)}
TransferClauses(c) ==
  IF c.lost THEN (IF c.len = "finite" THEN {"unrecoverable_never_finite"} ELSE {})
  ELSE
      (IF c.len # "finite" THEN {"finite_when_regular"} ELSE {})
    \cup (IF c.len = "finite" /\ SetOf(c.zeros) \notin Sn!Admissible(c.k, SetOf(c.small), SetOf(c.tie), {SetOf(c.bad[i]) : i \in 1..Len(c.bad)})
          THEN {"dropped_set"} ELSE {})
    \cup (IF ~c.pOK THEN {"parameters_are_map_of_ml"} ELSE {})
    \cup (IF c.len = "finite" /\ ~c.formula THEN {"length_from_transformed_fisher"} ELSE {})
    \cup (IF ~c.nllok THEN {"nll_of_unique_or_reevaluated"} ELSE {})
    \cup (IF ~c.indexOK THEN {"row_refers_to_its_unique"} ELSE {})

(* "concat": the per-round logs of one function (sequences of templates, in round order) and its row of the
   final map file.  Law (duplicate_checker.py:221-262 = Dedup's ConcatRounds ; CancelPairs): the final row is
   Subs!Cancel of the concatenation of the round rows, unless check_results un-merged the function (then the
   row is empty and the function is its own unique). *)
RECURSIVE Flatten(_)
Flatten(ss) == IF ss = <<>> THEN <<>> ELSE Head(ss) \o Flatten(Tail(ss))
ConcatClauses(c) ==
  LET all == Flatten(c.rounds) IN
  IF c.unmerged THEN (IF c.final # <<>> THEN {"unmerged_row_is_empty"} ELSE {})
  ELSE IF c.final # Sb!Cancel(all) THEN {"final_row_is_cancel_of_concatenated_rounds"} ELSE {}

Clauses(c) == CASE c.kind = "cancel"   -> CancelClauses(c)
                [] c.kind = "concat"   -> ConcatClauses(c)
                [] c.kind = "dup"      -> DupClauses(c)
                [] c.kind = "row"      -> RowClauses(c)
                [] c.kind = "file"     -> FileClauses(c)
                [] c.kind = "transfer" -> TransferClauses(c)
                [] OTHER               -> {"unknown_kind"}
Verdict == LET c == Cases[ji] v == Clauses(c) IN v = {} \/ PrintT(ToJson([id |-> c.id, failed |-> v]))
Counted == (ji = Len(Cases)) => PrintT(ToJson([judged |-> ji]))
=============================================================================
