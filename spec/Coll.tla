-------------------------------- MODULE Coll --------------------------------
(***************************************************************************)
(* SPMD ranks and the five collectives ESR uses (bcast, gather, scatter,   *)
(* allgather, Barrier).  DESIGN.md 3.3.  This is the semantics the MPI     *)
(* stand-in implements (harness/coord.py: complete()).                     *)
(*                                                                         *)
(* Every rank runs its own program: a sequence of calls [op, root].  An    *)
(* SPMD program has the same sequence on all ranks; Diverge models a rank  *)
(* taking a different branch, Crash an uncaught exception in one rank.     *)
(***************************************************************************)
EXTENDS Naturals, Integers, Sequences, FiniteSets, TLC

CONSTANTS P,          \* number of ranks
          Programs    \* set of programs; a program is a sequence of [op |-> .., root |-> ..]

Ranks == 0..(P - 1)
Ops   == {"bcast", "gather", "scatter", "allgather", "barrier"}

VARIABLES prog,       \* prog[r]  : the program rank r runs
          pc,         \* pc[r]    : number of collectives rank r has completed
          posted,     \* posted[r]: TRUE while rank r is blocked in its call number pc[r]+1
          alive,      \* alive[r] : FALSE after an uncaught exception
          done,       \* log of completed collectives: sequence of [op, root, order]
          order       \* ranks in the order they posted the current collective (schedule observable)
vars == <<prog, pc, posted, alive, done, order>>

Init == /\ \E pr \in Programs : prog = [r \in Ranks |-> pr]
        /\ pc = [r \in Ranks |-> 0]
        /\ posted = [r \in Ranks |-> FALSE]
        /\ alive = [r \in Ranks |-> TRUE]
        /\ done = <<>>
        /\ order = <<>>

Finished(r) == pc[r] = Len(prog[r])
CallOf(r)   == prog[r][pc[r] + 1]

Post(r) == /\ alive[r] /\ ~posted[r] /\ ~Finished(r)
           /\ posted' = [posted EXCEPT ![r] = TRUE]
           /\ order' = Append(order, r)
           /\ UNCHANGED <<prog, pc, alive, done>>

AllPosted == \A r \in Ranks : posted[r]
Agree     == \A r, q \in Ranks : CallOf(r) = CallOf(q)

Complete == /\ AllPosted /\ Agree
            /\ done' = Append(done, [op |-> CallOf(0).op, root |-> CallOf(0).root])
            /\ pc' = [r \in Ranks |-> pc[r] + 1]
            /\ posted' = [r \in Ranks |-> FALSE]
            /\ order' = <<>>
            /\ UNCHANGED <<prog, alive>>

Crash(r) == /\ alive[r] /\ ~posted[r] /\ ~Finished(r)
            /\ alive' = [alive EXCEPT ![r] = FALSE]
            /\ UNCHANGED <<prog, pc, posted, done, order>>

Next      == (\E r \in Ranks : Post(r)) \/ Complete
NextFault == Next \/ (\E r \in Ranks : Crash(r))
Spec      == Init /\ [][Next]_vars
FaultSpec == Init /\ [][NextFault]_vars

(* --- properties --- *)
Matched  == AllPosted => Agree             \* no completion attempt with disagreeing calls (SPMD divergence)
Stuck    == /\ \E r \in Ranks : posted[r]
            /\ \E q \in Ranks : ~posted[q] /\ (Finished(q) \/ ~alive[q])
NoOrphan == ~Stuck                          \* nobody blocked forever behind a rank that is gone
(* relative speeds have no influence: the log of completed collectives is a function of pc alone *)
Confluent == \A k \in 1..Len(done) : done[k] = [op |-> prog[0][k].op, root |-> prog[0][k].root]
Terminates == <>(\A r \in Ranks : Finished(r))
=============================================================================
