SPECIFICATION Spec
INVARIANT MapExact
INVARIANT SameFamily
INVARIANT RoundExact
CHECK_DEADLOCK FALSE
