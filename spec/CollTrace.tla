------------------------------ MODULE CollTrace ------------------------------
(***************************************************************************)
(* Trace validation of a run recorded by the stand-in's coordinator        *)
(* (binding B): events post(rank, op, root), coll(op, root, plen[]) and    *)
(* exit(rank, code), in the coordinator's linearisation order.  The rank   *)
(* programs are not known in advance (they depend on P and on the data):   *)
(* each Post extends the rank's program by the logged call, and the spec's *)
(* Post / Complete must then be enabled.                                   *)
(***************************************************************************)
EXTENDS Naturals, Integers, Sequences, FiniteSets, TLC, Json, IOUtils

Trace == ndJsonDeserialize(IOEnv.CASES)
NP == Trace[1].P
VARIABLES l, prog, pc, posted, alive, done, order, exited
C == INSTANCE Coll WITH P <- NP, Programs <- {<<>>}
tvars == <<l, prog, pc, posted, alive, done, order, exited>>

TInit == /\ l = 2 /\ TLCSet(1, 0)
         /\ prog = [r \in 0..(NP - 1) |-> <<>>]
         /\ pc = [r \in 0..(NP - 1) |-> 0]
         /\ posted = [r \in 0..(NP - 1) |-> FALSE]
         /\ alive = [r \in 0..(NP - 1) |-> TRUE]
         /\ done = <<>> /\ order = <<>>
         /\ exited = [r \in 0..(NP - 1) |-> -1]

IsEvent(k) == l <= Len(Trace) /\ Trace[l].ev = k /\ l' = l + 1

TPost == /\ IsEvent("post")
         /\ LET e == Trace[l] IN
              /\ exited[e.rank] = -1
              /\ ~posted[e.rank]
              /\ prog' = [prog EXCEPT ![e.rank] = Append(@, [op |-> e.op, root |-> e.root])]
              /\ posted' = [posted EXCEPT ![e.rank] = TRUE]
              /\ order' = Append(order, e.rank)
              /\ UNCHANGED <<pc, alive, done, exited>>

TComplete == /\ IsEvent("coll")
             /\ C!Complete
             /\ LET e == Trace[l] IN
                  /\ done'[Len(done')] = [op |-> e.op, root |-> e.root]
                  /\ (e.op = "scatter" => e.plen[e.root + 1] = NP)
             /\ UNCHANGED exited

TExit == /\ IsEvent("exit")
         /\ LET e == Trace[l] IN
              /\ ~posted[e.rank]
              /\ exited' = [exited EXCEPT ![e.rank] = e.code]
              /\ alive' = [alive EXCEPT ![e.rank] = (e.code = 0)]
         /\ UNCHANGED <<prog, pc, posted, done, order>>

TOther == /\ l <= Len(Trace) /\ Trace[l].ev \in {"grant", "yield", "note"} /\ l' = l + 1
          /\ UNCHANGED <<prog, pc, posted, alive, done, order, exited>>

TNext == TPost \/ TComplete \/ TExit \/ TOther
TSpec == TInit /\ [][TNext]_tvars

(* evaluated in every state of the trace; a failed clause is reported once per state as JSON
   (the first report names the event index) instead of TLC's full counterexample *)
Check(name, cond) == cond \/ PrintT(ToJson([violated |-> name, at |-> l - 1]))
TMatched  == Check("matched", C!AllPosted => C!Agree)
TNoOrphan == Check("no_orphan", ~(\E r \in 0..(NP - 1) : posted[r]) \/ (\A q \in 0..(NP - 1) : exited[q] = -1))
AllExitZero == Check("all_ranks_exit_zero", l > Len(Trace) => \A r \in 0..(NP - 1) : exited[r] = 0)
SameProgram == Check("same_program_on_all_ranks", l > Len(Trace) => \A r \in 0..(NP - 1) : prog[r] = prog[0])
(* acceptance: the whole trace was consumed; otherwise report where it stopped *)
Consumed == TLCSet(1, IF l > TLCGet(1) THEN l ELSE TLCGet(1))
Accepted == /\ PrintT(ToJson([consumed |-> TLCGet(1) - 1, total |-> Len(Trace)]))
            /\ TLCGet(1) = Len(Trace) + 1
=============================================================================
