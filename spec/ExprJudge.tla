----------------------------- MODULE ExprJudge -----------------------------
(***************************************************************************)
(* Judge of the printer round trip (property C12) against Expr.tla: one    *)
(* state per recorded term.  A case carries the term itself (so that the   *)
(* grammar predicate is recomputed here, not trusted from the harness),    *)
(* the P1 classes of the expression and of the two readings of its printed *)
(* string, and the interned ids of the strings obtained for it:            *)
(*   sids[1], sids[2]  two prints in the checking process,                 *)
(*   sids[3]           one print in a fresh interpreter with another       *)
(*                     PYTHONHASHSEED.                                     *)
(***************************************************************************)
EXTENDS Expr, IOUtils
(* Expr is extended, not instantiated: TLC evaluates Expr's constant tables (ValOf, NumToks) once;
   under INSTANCE ... WITH they are re-evaluated at every use (measured: 230 s for 28 686 cases).
   The generator's variables t, d are pinned; its constants are irrelevant here (any value). *)

Cases == ndJsonDeserialize(IOEnv.CASES)
VARIABLES ji,       \* position in the batch
          nIn       \* number of cases so far whose term is in the grammar (the law was demanded)
In(c) == IF InGrammar(c.term) THEN 1 ELSE 0
JInit == ji = 1 /\ nIn = In(Cases[1]) /\ t = Leaf("x") /\ d = 0
JNext == ji < Len(Cases) /\ ji' = ji + 1 /\ nIn' = nIn + In(Cases[ji + 1]) /\ UNCHANGED vars
JSpec == JInit /\ [][JNext]_<<ji, nIn, t, d>>

Clauses(c) ==
    (IF ~WellFormed(c.term) THEN {"term_well_formed"} ELSE {})
  \cup (IF ~ReadsBack(c.term, c.clsOrig, c.clsGen) THEN {"generation_reading"} ELSE {})
  \cup (IF ~ReadsBack(c.term, c.clsOrig, c.clsFit) THEN {"fitting_reading"} ELSE {})
  \cup (IF ~PrintFunctional(SubSeq(c.sids, 1, 2)) THEN {"deterministic"} ELSE {})
  \cup (IF ~PrintFunctional(<<c.sids[1], c.sids[3]>>) THEN {"deterministic_across_processes"} ELSE {})

Verdict == LET c == Cases[ji] v == Clauses(c) IN
             v = {} \/ PrintT(ToJson([id |-> c.id, failed |-> v]))
Counted == (ji = Len(Cases)) => PrintT(ToJson([judged |-> ji, inGrammar |-> nIn]))
=============================================================================
