-------------------------------- MODULE Prev --------------------------------
(***************************************************************************)
(* Spec growth beyond the listed properties: the fitting stage's option     *)
(* ignore_previous_eqns (test_all.main / optimise_fun).  With the option on *)
(* a unique function of complexity n whose string already is a unique       *)
(* function of some lower complexity is not fitted again: its row is +INF   *)
(* with zero parameters; every other row is what the stage produces with    *)
(* the option off.  Strings are ids; rows are value classes.                *)
(***************************************************************************)
EXTENDS Naturals, Sequences, FiniteSets, TLC, Json, IOUtils
INF == 100000
(* the required table *)
Required(uniq, lower, plain) == [u \in 1..Len(uniq) |-> IF uniq[u] \in lower THEN INF ELSE plain[u]]

Cases == ndJsonDeserialize(IOEnv.CASES)
VARIABLE ji
JInit == ji = 1
JNext == ji < Len(Cases) /\ ji' = ji + 1
JSpec == JInit /\ [][JNext]_ji
(* one case: uniq (string ids), lower (ids of all lower-complexity uniques), plain / flagged (value classes per row), zero[u] (parameters all zero) *)
Clauses(c) ==
  LET lower == {c.lower[i] : i \in 1..Len(c.lower)}
      req == Required(c.uniq, lower, c.plain) IN
    (IF Len(c.flagged) # Len(c.uniq) THEN {"one_row_per_unique"} ELSE
       (IF \E u \in 1..Len(c.uniq) : c.uniq[u] \in lower /\ c.flagged[u] # INF THEN {"seen_before_is_skipped"} ELSE {})
  \cup (IF \E u \in 1..Len(c.uniq) : c.uniq[u] \in lower /\ ~c.zero[u] THEN {"skipped_row_has_zero_parameters"} ELSE {})
  \cup (IF \E u \in 1..Len(c.uniq) : c.uniq[u] \notin lower /\ c.flagged[u] # req[u] THEN {"new_function_fitted_as_without_the_option"} ELSE {}))
Verdict == LET c == Cases[ji] v == Clauses(c) IN v = {} \/ PrintT(ToJson([id |-> c.id, failed |-> v]))
Counted == (ji = Len(Cases)) => PrintT(ToJson([judged |-> ji]))
=============================================================================
