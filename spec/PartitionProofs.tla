-------------------------- MODULE PartitionProofs --------------------------
(***************************************************************************)
(* TLAPS proofs, for EVERY list length N and EVERY rank count P, of what   *)
(* TLC checks in Partition.tla for N <= MaxN, P <= MaxP (C14, first half). *)
(* The definitions are those of PartitionDefs.tla, which Partition.tla     *)
(* EXTENDS; the link between the closed form SplitLoC and the running sum  *)
(* of section sizes that the code (and Partition!SplitLo) computes is the  *)
(* TLC invariant Partition!ClosedForm.                                     *)
(*   FitTilesAll   : for any chunk length k >= 0 the slices               *)
(*                   [r k, (r+1) k) clipped at N, last one extended to N,  *)
(*                   are contiguous, ordered, start at 0 and end at N.     *)
(*   NlsInv        : the "correcting for many cores" loop keeps the chunk  *)
(*                   length a natural number (so FitTilesAll applies to    *)
(*                   whatever value the loop exits with) and, on exit,     *)
(*                   the last rank starts inside the list.                 *)
(*   SplitTilesAll : array_split sections tile 0..N-1 and differ in size   *)
(*                   by at most one.                                       *)
(***************************************************************************)
EXTENDS PartitionDefs, TLAPS

THEOREM FitTilesAll ==
  ASSUME NEW n \in Nat, NEW p \in Nat \ {0}, NEW k \in Nat
  PROVE  /\ FitLo(n, 0, k) = 0
         /\ FitHi(n, p - 1, p, k) = n
         /\ \A r \in 0..(p - 1) : FitLo(n, r, k) <= FitHi(n, r, p, k)
         /\ \A r \in 0..(p - 1) : FitLo(n, r, k) \in 0..n /\ FitHi(n, r, p, k) \in 0..n
         /\ \A r \in 0..(p - 2) : FitHi(n, r, p, k) = FitLo(n, r + 1, k)
<1>1. FitLo(n, 0, k) = 0  BY DEF FitLo, Min
<1>2. FitHi(n, p - 1, p, k) = n  BY DEF FitHi
<1>3. \A r \in 0..(p - 1) : FitLo(n, r, k) <= FitHi(n, r, p, k)
  <2> TAKE r \in 0..(p - 1)
  <2>1. r * k <= (r + 1) * k  OBVIOUS
  <2> QED BY <2>1 DEF FitLo, FitHi, Min
<1>4. \A r \in 0..(p - 1) : FitLo(n, r, k) \in 0..n /\ FitHi(n, r, p, k) \in 0..n
  <2> TAKE r \in 0..(p - 1)
  <2>1. r * k \in Nat /\ (r + 1) * k \in Nat  OBVIOUS
  <2> QED BY <2>1 DEF FitLo, FitHi, Min
<1>5. \A r \in 0..(p - 2) : FitHi(n, r, p, k) = FitLo(n, r + 1, k)  BY DEF FitHi, FitLo
<1> QED BY <1>1, <1>2, <1>3, <1>4, <1>5

(* the loop of get_functions *)
Inv == /\ N \in Nat /\ P \in Nat \ {0} /\ nLs \in Nat
       /\ pc \in {"ceil", "loop", "done"}
       /\ pc = "done" => nLs * (P - 1) <= N

LEMMA CeilNat == ASSUME NEW a \in Nat, NEW b \in Nat \ {0} PROVE CeilDiv(a, b) \in Nat
  BY DEF CeilDiv

THEOREM NlsInv == PSpecU => []Inv
<1>1. PInitU => Inv  BY DEF PInitU, Inv
<1>2. Inv /\ [PNext]_pvars => Inv'
  <2> SUFFICES ASSUME Inv, [PNext]_pvars PROVE Inv'  OBVIOUS
  <2>1. CASE Ceil  BY <2>1, CeilNat DEF Ceil, Inv
  <2>2. CASE Correct
    <3>1. nLs # 0  BY <2>2 DEF Correct, Inv
    <3> QED BY <2>2, <3>1 DEF Correct, Inv
  <2>3. CASE Exit  BY <2>3 DEF Exit, Inv
  <2>4. CASE UNCHANGED pvars  BY <2>4 DEF pvars, Inv
  <2> QED BY <2>1, <2>2, <2>3, <2>4 DEF PNext
<1> QED BY <1>1, <1>2, PTL DEF PSpecU

COROLLARY NlsNonNegAll == PSpecU => []NlsNonNeg
<1>1. Inv => NlsNonNeg  BY DEF Inv, NlsNonNeg
<1> QED BY <1>1, NlsInv, PTL

(* the loop terminates: every Correct step strictly decreases the natural number nLs *)
THEOREM LoopVariant == ASSUME Inv, Correct PROVE nLs' \in Nat /\ nLs' < nLs
  <1>1. nLs # 0  BY DEF Correct, Inv
  <1> QED BY <1>1 DEF Correct, Inv

THEOREM SplitTilesAll ==
  ASSUME NEW n \in Nat, NEW p \in Nat \ {0}
  PROVE  /\ SplitLoC(n, 0, p) = 0
         /\ SplitLoC(n, p, p) = n
         /\ \A r \in 0..(p - 1) : SplitLoC(n, r + 1, p) = SplitLoC(n, r, p) + SectionSize(n, r, p)
         /\ \A r \in 0..(p - 1) : SectionSize(n, r, p) \in Nat
         /\ \A r, s \in 0..(p - 1) : SectionSize(n, r, p) - SectionSize(n, s, p) \in {-1, 0, 1}
         /\ \A r, s \in 0..(p - 1) : r <= s => SectionSize(n, r, p) >= SectionSize(n, s, p)
<1> DEFINE q == n \div p
<1> DEFINE m == n % p
<1>a. n \div p \in Nat  OBVIOUS
<1>b. n % p \in 0..(p - 1)  OBVIOUS
<1>c. n = p * (n \div p) + (n % p)  OBVIOUS
<1>0. q \in Nat /\ m \in 0..(p - 1) /\ n = p * q + m  BY <1>a, <1>b, <1>c
<1>1. SplitLoC(n, 0, p) = 0  BY <1>0 DEF SplitLoC, Min
<1>2. SplitLoC(n, p, p) = n  BY <1>0 DEF SplitLoC, Min
<1>3. \A r \in 0..(p - 1) : SplitLoC(n, r + 1, p) = SplitLoC(n, r, p) + SectionSize(n, r, p)
  <2> TAKE r \in 0..(p - 1)
  <2>1. (r + 1) * q = r * q + q  BY <1>0
  <2> QED BY <1>0, <2>1 DEF SplitLoC, SectionSize, Min
<1>4. \A r \in 0..(p - 1) : SectionSize(n, r, p) \in Nat  BY <1>0 DEF SectionSize
<1>5. \A r, s \in 0..(p - 1) : SectionSize(n, r, p) - SectionSize(n, s, p) \in {-1, 0, 1}  BY <1>0 DEF SectionSize
<1>6. \A r, s \in 0..(p - 1) : r <= s => SectionSize(n, r, p) >= SectionSize(n, s, p)
  <2> TAKE r, s \in 0..(p - 1)
  <2> HAVE r <= s
  <2>1. s < m => r < m  BY <1>0
  <2> QED BY <1>0, <2>1 DEF SectionSize
<1> QED BY <1>1, <1>2, <1>3, <1>4, <1>5, <1>6
=============================================================================
