SPECIFICATION Spec
INVARIANT Satisfiable
INVARIANT TopIsMinimum
INVARIANT Sensitive
INVARIANT EmitTable
CHECK_DEADLOCK FALSE
