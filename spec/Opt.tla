-------------------------------- MODULE Opt --------------------------------
(***************************************************************************)
(* Control logic of the multi-start optimiser, esr/fitting/test_all.py     *)
(* optimise_fun:191-284 (DESIGN.md 3.9, C10).                              *)
(*                                                                         *)
(* One step of the machine = one iteration of `for j in range(Niter)`.     *)
(* It consumes a RESULT VECTOR: the values res['fun'] of the calls of      *)
(* `minimize` made in that iteration, indexed by branch:                   *)
(*   mode "lin"   1 call  (nparam >= 3, or log_opt False), signs None      *)
(*   mode "log1"  2 calls (one parameter, log_opt):  ['+'] ['-']           *)
(*   mode "log2"  4 calls (two parameters, log_opt): ['+','+'] ['-','+']   *)
(*                                                   ['+','-'] ['-','-']   *)
(* Values are integers in a unit chosen by the harness (thresholds 0.5 and *)
(* 2 of the code are P.t05 and P.t2 in that unit) plus the token INF.      *)
(* NaN is not in the alphabet: every negloglike of likelihood.py maps NaN  *)
(* to +inf, so `minimize` never reports NaN for a likelihood of ESR.       *)
(*                                                                         *)
(* P = [mode, niter, nconv, infmax, t05, t2]   (infmax is 50 in the code)  *)
(***************************************************************************)
EXTENDS Naturals, Integers, Sequences, SequencesExt, FiniteSets, TLC, Json

CONSTANT Variant      \* "code" = the transcription; "norebind" = negative control: mult_arr is not re-created per iteration

INF == 1000000000
IsInf(a) == a = INF

NB(mode) == IF mode = "log2" THEN 4 ELSE IF mode = "log1" THEN 2 ELSE 1
NP(mode) == IF mode = "log2" THEN 2 ELSE IF mode = "log1" THEN 1 ELSE 0     \* parameters that carry a sign

(* the `signs` argument given to chi2_fcn by the call of branch b (lines 199-202, 229-230; None in linear mode):
   the parameter the minimiser works on is sign * 10^x *)
SignTable(mode) == IF mode = "log2" THEN << <<1, 1>>, <<-1, 1>>, <<1, -1>>, <<-1, -1>> >>
                   ELSE IF mode = "log1" THEN << <<1>>, <<-1>> >>
                   ELSE << <<>> >>

(* branch choice: lines 204 (np.argmin: the first minimum) and 233-240 (p if p<m, m if p>m, p if equal) *)
Choose(mode, v) ==
  IF mode = "lin" THEN 1
  ELSE IF mode = "log1" THEN (IF v[1] < v[2] THEN 1 ELSE IF v[1] > v[2] THEN 2 ELSE 1)
  ELSE CHOOSE b \in 1..4 : (\A c \in 1..4 : v[b] <= v[c]) /\ (\A c \in 1..(b - 1) : v[c] > v[b])

(* IEEE comparisons of the three tests (lines 257, 261, 264); inf - inf = nan compares False *)
Improves2(P, f, cm) == ~IsInf(f) /\ (IsInf(cm) \/ f - cm < -P.t2)            \* res['fun'] - chi2_min < -2.
Within(P, f, cm)    == ~IsInf(f) /\ ~IsInf(cm) /\ f - cm < P.t05 /\ cm - f < P.t05   \* abs(res['fun'] - chi2_min) < 0.5
Better(f, cm)       == f < cm                                                  \* res['fun'] < chi2_min  (INF < INF is FALSE)

(* The names mult_arr and mult_arr_best are bound to numpy arrays (objects).  The model keeps the value of the
   object bound to each name (first two entries; the others stay 1) and one bit `alias`: both names are bound to
   the same object, so that a write through mult_arr is seen through mult_arr_best. *)
Ones == <<1, 1>>
Write(s, k) == [s EXCEPT !.mult[k] = -1, !.multBest[k] = IF s.alias THEN -1 ELSE @]   \* mult_arr[k-1] = -1
Rebind(s)   == IF Variant = "norebind" THEN s                                          \* (negative control, not the code)
               ELSE [s EXCEPT !.mult = Ones, !.alias = FALSE]                         \* mult_arr = np.ones(max_param)

(* lines 205-217 / 232-237: the sign array of the chosen branch *)
SetMult(mode, s, b) ==
  IF mode = "lin" THEN s
  ELSE LET r == Rebind(s) IN
       IF mode = "log1" THEN (IF b = 2 THEN Write(r, 1) ELSE r)
       ELSE IF b = 1 THEN r
       ELSE IF b = 2 THEN Write(r, 1)
       ELSE IF b = 3 THEN Write(r, 2)
       ELSE Write(Write(r, 1), 2)

NoBest == [it |-> 0, br |-> 0]
Init0(P) == [j |-> 0, chi2min |-> INF, best |-> NoBest, mult |-> Ones, multBest |-> Ones, alias |-> FALSE,
             cnt |-> 0, infc |-> 0, done |-> FALSE, why |-> "run"]

(* one iteration, in the order of the code: inf count (249), 50-inf break (253), reset (257), count (261),
   new best (264), convergence break (270); the for loop ends after niter iterations *)
Step(P, s, v) ==
  LET b  == Choose(P.mode, v)
      f  == v[b]
      s1 == [SetMult(P.mode, s, b) EXCEPT !.j = s.j + 1]
      s2 == [s1 EXCEPT !.infc = IF IsInf(f) THEN @ + 1 ELSE @]
  IN IF s2.infc = P.infmax /\ IsInf(s2.chi2min)
     THEN [s2 EXCEPT !.done = TRUE, !.why = "inf"]
     ELSE LET s3 == [s2 EXCEPT !.cnt = IF Improves2(P, f, s2.chi2min) THEN 0 ELSE @]
              s4 == [s3 EXCEPT !.cnt = IF Within(P, f, s3.chi2min) THEN @ + 1 ELSE @]
              s5 == IF Better(f, s4.chi2min)
                    THEN [s4 EXCEPT !.best = [it |-> s4.j, br |-> b], !.multBest = s4.mult, !.alias = TRUE, !.chi2min = f]
                    ELSE s4
          IN IF s5.cnt = P.nconv THEN [s5 EXCEPT !.done = TRUE, !.why = "conv"]
             ELSE IF s5.j = P.niter THEN [s5 EXCEPT !.done = TRUE, !.why = "niter"]
             ELSE s5

(* the loop on a whole history: a fold (the Java-implemented FoldLeft evaluates eagerly; a RECURSIVE definition
   overflows TLC's stack on histories of some 200 iterations, which real fits with three parameters reach) *)
Run(P, h) == FoldLeft(LAMBDA s, v : IF s.done THEN s ELSE Step(P, s, v), Init0(P), h)

(* lines 273-284: what is returned.  Parameters are those of `best` (it, br): best.x itself in linear mode
   ("id"), 10**best.x * mult_arr_best otherwise ("pow10"); zeros when nothing finite was found *)
Back(mode) == IF mode = "lin" THEN "id" ELSE "pow10"
Answer(P, s) == [value |-> s.chi2min, n |-> s.j, why |-> s.why,
                 it |-> IF IsInf(s.chi2min) THEN 0 ELSE s.best.it,
                 br |-> IF IsInf(s.chi2min) THEN 0 ELSE s.best.br,
                 back |-> Back(P.mode),
                 signs |-> IF IsInf(s.chi2min) THEN <<>> ELSE SubSeq(s.multBest, 1, NP(P.mode))]

(* minimum of all branch values of the first n vectors of h *)
AllVals(mode, h, n) == {h[i][b] : i \in 1..n, b \in 1..NB(mode)}
MinAll(mode, h, n)  == IF n = 0 THEN INF ELSE CHOOSE m \in AllVals(mode, h, n) : \A e \in AllVals(mode, h, n) : m <= e

---------------------------------------------------------------------------
(* What the property needs from an answer `a` to the scripted history h (a relation: any position attaining
   the minimum may be the winner):                                                                          *)
(*   (a) the value is the minimum over everything consumed                                                  *)
(*   (b) the parameters are those of an iteration and branch that attained it, with that branch's signs     *)
(*   (c) no more than niter iterations are consumed                                                         *)
PostValue(P, h, a)  == a.value = MinAll(P.mode, h, a.n)
PostWinner(P, h, a) == IF IsInf(a.value) THEN a.it = 0
                       ELSE a.it \in 1..a.n /\ a.br \in 1..NB(P.mode) /\ h[a.it][a.br] = a.value
PostSigns(P, h, a)  == IsInf(a.value) \/ (a.br \in 1..NB(P.mode) /\ a.signs = SignTable(P.mode)[a.br] /\ a.back = Back(P.mode))
PostStops(P, h, a)  == a.n <= P.niter

---------------------------------------------------------------------------
CONSTANTS Mode, Niter, Nconv, InfMax, T05, T2,
          Vals,          \* finite values of the alphabet (INF is added)
          Prefix,        \* history consumed before the exploration starts (sequence of vectors)
          StepEmit       \* emission spec: TRUE = print every explored transition (with paddings), FALSE = complete behaviours
Par  == [mode |-> Mode, niter |-> Niter, nconv |-> Nconv, infmax |-> InfMax, t05 |-> T05, t2 |-> T2]
Alph == Vals \cup {INF}
Vecs == [1..NB(Mode) -> Alph]

VARIABLES st,      \* state of the loop
          gh,      \* ghost: running minimum of all consumed branch values, first position attaining it
          hist     \* consumed result vectors (emission specs only)
vars == <<st, gh, hist>>

(* ---- 1. the loop with ghosts, no history: every result sequence, small state graph ---- *)
GInit == [gmin |-> INF, first |-> NoBest]
RECURSIVE GScan(_, _, _, _)
GScan(g, it, v, b) == IF b > Len(v) THEN g
                      ELSE GScan(IF v[b] < g.gmin THEN [gmin |-> v[b], first |-> [it |-> it, br |-> b]] ELSE g, it, v, b + 1)
Init == st = Init0(Par) /\ gh = GInit /\ hist = <<>>
Next == /\ ~st.done
        /\ \E v \in Vecs : st' = Step(Par, st, v) /\ gh' = GScan(gh, st.j + 1, v, 1)
        /\ hist' = hist
Spec == Init /\ [][Next]_vars

Done == st.done
(* (a) *) ValueIsMinimum     == Done => st.chi2min = gh.gmin
(* (b) *) WinnerAttains      == Done /\ ~IsInf(st.chi2min) => st.best = gh.first      \* the first position attaining the minimum
(* (c) *) StopsByNiter       == st.j <= Niter /\ (st.j = Niter => Done)
(* reference semantics of mult_arr_best never shows: the sign array stored with the best result is the one of its branch *)
SignArrayOfBest == ~IsInf(st.chi2min) =>
                     LET sg == SignTable(Mode)[st.best.br] IN \A k \in 1..NP(Mode) : st.multBest[k] = sg[k]
MinimumSoFar    == st.chi2min = gh.gmin                           \* holds at every step, not only at the end
InfRule         == (st.why = "inf") => (st.infc = InfMax /\ IsInf(st.chi2min) /\ st.j = InfMax)
ConvRule        == (st.why = "conv") => (st.cnt = Nconv /\ ~IsInf(st.chi2min))
CountBounded    == st.cnt <= Nconv /\ st.infc <= st.j
TypeOK == /\ st.j \in 0..Niter /\ st.chi2min \in Alph /\ st.cnt \in 0..Nconv /\ st.infc \in 0..Niter
          /\ st.best.it \in 0..Niter /\ st.best.br \in 0..NB(Mode) /\ st.why \in {"run", "inf", "conv", "niter"}
(* the answer of the machine satisfies the postconditions stated on answers (used by the judge) for the ghost's facts *)
AnswerShape == Done => LET a == Answer(Par, st) IN
                  /\ a.n <= Niter
                  /\ (IsInf(a.value) <=> a.it = 0)
                  /\ (~IsInf(a.value) => a.signs = SignTable(Mode)[a.br])

(* ---- 2. emission: the same loop with the history kept ---- *)
HInit == hist = Prefix /\ st = Run(Par, Prefix) /\ gh = GInit
RECURSIVE PadTo(_, _, _)
PadTo(h, v, n) == IF Len(h) >= n THEN h ELSE PadTo(Append(h, v), v, n)
ConstVec(a) == [b \in 1..NB(Mode) |-> a]
PadVals(s) == {INF, s.chi2min} \cup {CHOOSE m \in Vals : \A e \in Vals : m <= e}
Record(h, pad) == LET full == PadTo(h, ConstVec(pad), Niter) IN
                  [hist |-> full, len |-> Len(h), signtable |-> SignTable(Mode), ans |-> Answer(Par, Run(Par, full))]
HNext == /\ ~st.done
         /\ \E v \in Vecs :
              /\ st' = Step(Par, st, v) /\ hist' = Append(hist, v) /\ gh' = gh
              /\ (StepEmit => \A pad \in PadVals(st') : PrintT(ToJson(Record(hist', pad))))
HSpec == HInit /\ [][HNext]_vars
HView == st                                 \* with VIEW: one representative history per state of the loop
EmitDone == (~StepEmit /\ st.done) => PrintT(ToJson(Record(hist, INF)))
(* the postconditions on the full history *)
HPost == st.done => LET a == Answer(Par, st) IN
            PostValue(Par, hist, a) /\ PostWinner(Par, hist, a) /\ PostSigns(Par, hist, a) /\ PostStops(Par, hist, a)
HRunAgrees == st = Run(Par, hist)           \* the fold used by the judge is the state machine

(* ---- 3. random long behaviours (TLC -simulate): one random successor per step ---- *)
(* the random vector is fixed by assigning it to hist' first (a function constructor or a LET would re-draw it at every
   use; a definition without argument would be evaluated once as a constant) *)
RandVec(h) == IF NB(Mode) = 1 THEN <<RandomElement(Alph)>>
           ELSE IF NB(Mode) = 2 THEN <<RandomElement(Alph), RandomElement(Alph)>>
           ELSE <<RandomElement(Alph), RandomElement(Alph), RandomElement(Alph), RandomElement(Alph)>>
SimNext == /\ ~st.done
           /\ hist' = Append(hist, RandVec(hist))
           /\ st' = Step(Par, st, hist'[Len(hist')]) /\ gh' = gh
SimSpec == HInit /\ [][SimNext]_vars
=============================================================================
