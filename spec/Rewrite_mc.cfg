SPECIFICATION DSpec
CONSTANT K = 3
INVARIANT DListOK
INVARIANT DStepBound
INVARIANT DGrowsByRel
INVARIANT DSameAsOrig
INVARIANT DClosedAtEnd
PROPERTY DTerminates
CHECK_DEADLOCK FALSE
