------------------------------- MODULE Pareto -------------------------------
(***************************************************************************)
(* Spec growth beyond the listed properties: the reader of the final       *)
(* tables, esr/plotting/plot.py:pareto_plot.  A run directory holds one    *)
(* table final_<n>.dat per complexity n (what Rank.tla specifies); the     *)
(* Pareto front is, per complexity, the smallest description length and    *)
(* the smallest negative log-likelihood of the table, each shifted by its  *)
(* minimum over the complexities, drawn for the complexities that have a   *)
(* finite description length.  Values are integers (the harness writes     *)
(* tables whose entries are multiples of 1/2 and doubles what it reads     *)
(* back); NAN and INF are markers.                                         *)
(*                                                                         *)
(* Deliberate deviation modelled as the code has it: the shift of the      *)
(* log-likelihood curve is the minimum over ALL complexities with a        *)
(* number, including those dropped for want of a finite description length.*)
(***************************************************************************)
EXTENDS Integers, Sequences, FiniteSets, TLC, Json, IOUtils
NAN == 99999
INF == 100000
IsNum(v) == v # NAN
Finite(v) == v # NAN /\ v # INF
SetMin(S) == CHOOSE m \in S : \A v \in S : m <= v
(* np.nanmin of a column: NaN entries ignored, NaN when nothing is left (INF > every number) *)
ColMin(col) == LET S == {col[i] : i \in {j \in 1..Len(col) : IsNum(col[j])}} IN IF S = {} THEN NAN ELSE SetMin(S)
Shift(vals) == LET S == {vals[i] : i \in {j \in 1..Len(vals) : IsNum(vals[j])}} IN IF S = {} THEN NAN ELSE SetMin(S)
Sub(v, m) == IF v = NAN \/ m = NAN THEN NAN ELSE IF v = INF THEN (IF m = INF THEN NAN ELSE INF) ELSE v - m
(* files: sequence of [comp, dl, ll]; the required front as a set of points <<n, dDL, dLL>> *)
Front(files) ==
  LET K == 1..Len(files)
      mdl == [k \in K |-> ColMin(files[k].dl)]
      mll == [k \in K |-> ColMin(files[k].ll)]
      sdl == Shift(mdl)
      sll == Shift(mll) IN
    {<<files[k].comp, Sub(mdl[k], sdl), Sub(mll[k], sll)>> : k \in {j \in K : Finite(Sub(mdl[j], sdl))}}

Cases == ndJsonDeserialize(IOEnv.CASES)
VARIABLE ji
JInit == ji = 1
JNext == ji < Len(Cases) /\ ji' = ji + 1
JSpec == JInit /\ [][JNext]_ji
(* one case: files; mode ("both" | "dl" | "ll"); curves = the sequences handed to Axes.plot, each [x, y];            *)
(* ticks = the x ticks; saved = the figure file exists                                                               *)
Pts(curve) == {<<curve.x[i], curve.y[i]>> : i \in 1..Len(curve.x)}
Clauses(c) ==
  LET F == Front(c.files)
      wantDL == {<<p[1], p[2]>> : p \in F}
      wantLL == {<<p[1], p[3]>> : p \in F}
      want == IF c.mode = "both" THEN <<wantDL, wantLL>> ELSE IF c.mode = "dl" THEN <<wantDL>> ELSE <<wantLL>> IN
    (IF ~c.saved THEN {"figure_written"} ELSE {})
  \cup (IF Len(c.curves) # Len(want) THEN {"one_curve_per_requested_quantity"} ELSE
         (IF \E k \in 1..Len(want) : Len(c.curves[k].x) # Len(c.curves[k].y) \/ Len(c.curves[k].x) # Cardinality(F) THEN {"one_point_per_complexity_with_finite_DL"} ELSE {})
    \cup (IF \E k \in 1..Len(want) : Pts(c.curves[k]) # want[k] THEN {"point_is_table_minimum_minus_front_minimum"} ELSE {}))
  \cup (IF {c.ticks[i] : i \in 1..Len(c.ticks)} # {p[1] : p \in F} THEN {"ticks_are_the_plotted_complexities"} ELSE {})
Verdict == LET c == Cases[ji] v == Clauses(c) IN v = {} \/ PrintT(ToJson([id |-> c.id, failed |-> v]))
Counted == (ji = Len(Cases)) => PrintT(ToJson([judged |-> ji]))
=============================================================================
