------------------------------ MODULE LikeJudge ------------------------------
(***************************************************************************)
(* Judge of observed return values of negloglike against Like.tla (C09,    *)
(* code -> spec): one state per observation.  A record carries the case    *)
(* (cls, data, pred, exc), the projected observation                       *)
(*   obs \in {"inf","neginf","nan","finite","raised","nonreal"}            *)
(* and, for a finite real result, matches = "equals the linear form lin    *)
(* evaluated in double precision (1e-9)".  What is required is computed    *)
(* here from the case; lin must be the model's own linear form.            *)
(***************************************************************************)
EXTENDS Naturals, Integers, Sequences, FiniteSets, TLC, Json, IOUtils

L == INSTANCE Like WITH MaxLen <- 0, DataOf <- [c \in {} |-> <<>>], PredOf <- [c \in {} |-> <<>>], Raising <- {},
                        cls <- "", di <- <<>>, pred <- <<>>, exc <- FALSE

Cases == ndJsonDeserialize(IOEnv.CASES)
VARIABLE ji
JInit == ji = 1
JNext == ji < Len(Cases) /\ ji' = ji + 1
JSpec == JInit /\ [][JNext]_ji

Obs == {"inf", "neginf", "nan", "finite", "raised", "nonreal"}

Clauses(c) ==
  LET req == L!Req(c.cls, c.pred, c.exc)
      lin == L!Value(c.cls, c.data, c.pred, c.exc)
  IN   (IF c.obs = "nan" THEN {"never_nan"} ELSE {})
  \cup (IF req # "FREE" /\ ((req = "INF") # (c.obs = "inf")) THEN {"inf_exactly_when_required"} ELSE {})
  \cup (IF req = "VALUE" /\ ~(c.obs = "finite" /\ c.matches) THEN {"value"} ELSE {})
  \cup (IF req # "FREE" /\ c.obs = "raised" THEN {"returns"} ELSE {})
       \* self-checks of the binding (a failure is a machinery failure, not a verdict on the code)
  \cup (IF c.lin # lin \/ c.req # req THEN {"binding_model"} ELSE {})
  \cup (IF c.obs \notin Obs \/ (c.matches /\ c.obs # "finite") THEN {"binding_obs"} ELSE {})

Verdict == LET c == Cases[ji] v == Clauses(c) IN
             v = {} \/ PrintT(ToJson([id |-> c.id, failed |-> v]))
Counted == (ji = Len(Cases)) => PrintT(ToJson([judged |-> ji]))
=============================================================================
