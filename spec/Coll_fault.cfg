SPECIFICATION FaultSpec
CONSTANTS
  P = 3
  Programs <- MCPrograms
INVARIANT Matched
INVARIANT Confluent
CHECK_DEADLOCK FALSE
