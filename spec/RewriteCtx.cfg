SPECIFICATION Spec
INVARIANT AllWellFormed
INVARIANT Bounded
INVARIANT EmitTree
CHECK_DEADLOCK FALSE
