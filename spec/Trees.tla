------------------------------- MODULE Trees -------------------------------
(***************************************************************************)
(* Shapes, the placement machine (check_tree), the shape filter            *)
(* (get_allowed_shapes), labelled trees in emission order                  *)
(* (shape_to_functions), the raw infix string (node_to_string) and the     *)
(* structural tree code (aifeyn_complexity).   DESIGN.md 3.1               *)
(*                                                                         *)
(* Two state machines share this module:                                   *)
(*   ShapeSpec : one behaviour per candidate arity string; the actions are *)
(*               the statements of check_tree (generator.py:271-336).      *)
(*   LabelSpec : one behaviour per labelled tree; the actions place one    *)
(*               label per prefix position.                                *)
(***************************************************************************)
EXTENDS Naturals, Integers, Sequences, FiniteSets, TLC, Json

CONSTANTS N,          \* complexity = number of nodes
          B0, B1, B2, \* basis: sequences of label strings (nullary, unary, binary) in basis order
          Renumber    \* TRUE: nullary "a" becomes a0,a1,.. in order of appearance (generator)
                      \* FALSE: nullary labels are used verbatim (vocabulary mode, C08)

Arity == 0..2
None  == 0                       \* Python's None for node indices (nodes are 1..N)

---------------------------------------------------------------------------
(* Declarative definition of a valid prefix (Lukasiewicz) arity string *)
RECURSIVE NeedAt(_, _)
NeedAt(s, k) == IF k = 0 THEN 1 ELSE NeedAt(s, k - 1) + s[k] - 1
Valid(s) == /\ \A k \in 1..(Len(s) - 1) : NeedAt(s, k) > 0
            /\ NeedAt(s, Len(s)) = 0

Cands(n)      == [1..n -> Arity]
ValidShapes(n) == {s \in Cands(n) : Valid(s)}
ValidN == ValidShapes(N)        \* constant-level, evaluated once by TLC

IsPrefixOf(p, s) == Len(p) <= Len(s) /\ \A k \in 1..Len(p) : p[k] = s[k]

(* the three cheap rules applied before the loop (generator.py:353-362) *)
PreFilter(s) == /\ (Len(s) > 1 => s[1] # 0)
                /\ s[Len(s)] = 0
                /\ (Len(s) > 1 => s[Len(s) - 1] # 2)

---------------------------------------------------------------------------
(* The placement machine.  st.i is Python's i+1 (nodes are 1-based here). *)
StartState(s) ==
  [s |-> s, i |-> 1, j |-> None, phase |-> "loop", success |-> FALSE,
   left |-> [k \in 1..Len(s) |-> None], right |-> [k \in 1..Len(s) |-> None],
   parent |-> [k \in 1..Len(s) |-> None], part |-> <<>>]

Advance(st) == \* end of one iteration of the for loop with success = TRUE
  IF st.i = Len(st.s) - 1 THEN [st EXCEPT !.phase = "post"]
  ELSE [st EXCEPT !.i = st.i + 1, !.phase = "loop", !.success = FALSE]

PlaceLeft(st) ==
  Advance([st EXCEPT !.left[st.i] = st.i + 1, !.parent[st.i + 1] = st.i, !.success = TRUE])

StartClimb(st) == [st EXCEPT !.j = st.parent[st.i], !.phase = "climb"]

ClimbStep(st) ==
  IF st.s[st.j] = 2 /\ st.right[st.j] = None
  THEN Advance([st EXCEPT !.right[st.j] = st.i + 1, !.parent[st.i + 1] = st.j, !.success = TRUE])
  ELSE IF st.parent[st.j] = None
       THEN [st EXCEPT !.phase = "post", !.success = FALSE]        \* break; break
       ELSE [st EXCEPT !.j = st.parent[st.j]]

PostChecks(st) ==
  LET okL == \A k \in 1..Len(st.s) : st.s[k] \in {1, 2} => st.left[k] # None
      okR == \A k \in 1..Len(st.s) : st.s[k] = 2 => st.right[k] # None
  IN [st EXCEPT !.phase = "done",
                !.success = st.success /\ okL /\ okR,
                !.part = SubSeq(st.s, 1, st.i + 1)]

StepOp(st) ==
  CASE st.phase = "loop"  -> IF st.s[st.i] \in {1, 2} THEN PlaceLeft(st) ELSE StartClimb(st)
    [] st.phase = "climb" -> ClimbStep(st)
    [] st.phase = "post"  -> PostChecks(st)
    [] OTHER              -> st

RECURSIVE RunToEnd(_)
RunToEnd(st) == IF st.phase = "done" THEN st ELSE RunToEnd(StepOp(st))
CheckTree(s) == RunToEnd(StartState(s))

VARIABLES st,                      \* placement machine (ShapeSpec)
          shape, labels, nparam    \* labelling machine (LabelSpec)
lvars == <<shape, labels, nparam>>
vars  == <<st, shape, labels, nparam>>
Idle  == [phase |-> "idle"]      \* value of st while LabelSpec runs

ShapeInit == /\ \E s \in Cands(N) : (s[1] # 0) /\ st = StartState(s)
             /\ shape = <<>> /\ labels = <<>> /\ nparam = 0
ShapeNext == st.phase # "done" /\ st' = StepOp(st) /\ UNCHANGED lvars
ShapeSpec == ShapeInit /\ [][ShapeNext]_vars

Done == st.phase = "done"

(* --- invariants of the design (C01) --- *)
SuccessIffValid == Done => (st.success <=> Valid(st.s))
PartIsPrefix    == Done => IsPrefixOf(st.part, st.s)
PruningSound    == (Done /\ ~st.success) => \A v \in ValidN : ~IsPrefixOf(st.part, v)
PreFilterSound  == (Done /\ Valid(st.s)) => PreFilter(st.s)
ParentsConsistent ==
  Done /\ st.success =>
     \A k \in 2..N : /\ st.parent[k] \in 1..(k - 1)
                     /\ (st.left[st.parent[k]] = k \/ st.right[st.parent[k]] = k)
(* every state the placement machine ends in is emitted for the replay against check_tree *)
EmitShape == Done => PrintT(ToJson([s |-> st.s, success |-> st.success, part |-> st.part,
                                    parent |-> st.parent, left |-> st.left, right |-> st.right,
                                    valid |-> Valid(st.s), pre |-> PreFilter(st.s)]))

---------------------------------------------------------------------------
(* Labelled trees *)
BasisOf(t) == CASE t = 0 -> B0 [] t = 1 -> B1 [] t = 2 -> B2

LabelInit == /\ st = Idle
             /\ shape \in ValidN
             /\ labels = <<>>
             /\ nparam = 0

Place ==
  /\ Len(labels) < N
  /\ LET pos == Len(labels) + 1
         B   == BasisOf(shape[pos])
     IN \E b \in 1..Len(B) :
          IF Renumber /\ B[b] = "a"
          THEN /\ labels' = Append(labels, "a" \o ToString(nparam))
               /\ nparam' = nparam + 1
          ELSE /\ labels' = Append(labels, B[b])
               /\ nparam' = nparam
  /\ UNCHANGED <<shape, st>>

LabelSpec == LabelInit /\ [][Place]_vars
Complete == Len(labels) = N

(* index of the label chosen at position pos within its arity class *)
IsParam(l) == \E j \in 0..9 : l = "a" \o ToString(j)
IndexIn(B, l) == IF Renumber /\ IsParam(l) THEN CHOOSE b \in 1..Len(B) : B[b] = "a"
                 ELSE CHOOSE b \in 1..Len(B) : B[b] = l

(* position of this tree in the triple loop of shape_to_functions (0-based) *)
RECURSIVE ClassIndex(_, _, _, _)
ClassIndex(t, sh, lab, k) ==  \* mixed-radix number of the labels of arity class t, most significant first
  IF k = 0 THEN 0
  ELSE IF sh[k] = t
       THEN LET rest == ClassIndex(t, sh, lab, k - 1) IN rest * Len(BasisOf(t)) + (IndexIn(BasisOf(t), lab[k]) - 1)
       ELSE ClassIndex(t, sh, lab, k - 1)
CountOf(t, sh) == Cardinality({k \in 1..Len(sh) : sh[k] = t})
RECURSIVE Power(_, _)
Power(b, e) == IF e = 0 THEN 1 ELSE b * Power(b, e - 1)
EmitPos(sh, lab) ==
  (ClassIndex(0, sh, lab, Len(sh)) * Power(Len(B1), CountOf(1, sh)) + ClassIndex(1, sh, lab, Len(sh)))
     * Power(Len(B2), CountOf(2, sh)) + ClassIndex(2, sh, lab, Len(sh))
TreesOfShape(sh) == Power(Len(B0), CountOf(0, sh)) * Power(Len(B1), CountOf(1, sh)) * Power(Len(B2), CountOf(2, sh))

(* raw infix string, node_to_string (generator.py:387-412); returns <<string, next position>> *)
InfixOps == {"*", "/", "-", "+"}
RECURSIVE Str(_, _, _)
Str(sh, lab, p) ==
  IF sh[p] = 0 THEN <<lab[p], p + 1>>
  ELSE IF sh[p] = 1
       THEN LET c == Str(sh, lab, p + 1) IN <<lab[p] \o "(" \o c[1] \o ")", c[2]>>
       ELSE LET l == Str(sh, lab, p + 1)
                r == Str(sh, lab, l[2])
            IN IF lab[p] \in InfixOps
               THEN <<"(" \o l[1] \o ")" \o lab[p] \o "(" \o r[1] \o ")", r[2]>>
               ELSE <<lab[p] \o "(" \o l[1] \o "," \o r[1] \o ")", r[2]>>
Infix(sh, lab) == Str(sh, lab, 1)[1]

(* structural code: integers (k, nsym, consts) -- the harness evaluates k ln nsym + sum ln c *)
IntLabels == {ToString(z) : z \in -64..64}
IntOf(l) == CHOOSE z \in -64..64 : ToString(z) = l
Abs(z) == IF z < 0 THEN -z ELSE z
Code(lab, params) ==
  LET ops  == {lab[k] : k \in {q \in 1..Len(lab) : lab[q] \notin params /\ lab[q] \notin IntLabels}}
      nops == Cardinality({q \in 1..Len(lab) : lab[q] \notin params /\ lab[q] \notin IntLabels})
      has  == IF nops # Len(lab) THEN 1 ELSE 0
      ints == SelectSeq(lab, LAMBDA l : l \in IntLabels)
  IN [k |-> Len(lab), nsym |-> Cardinality(ops) + has,
      consts |-> [q \in 1..Len(ints) |-> IF IntOf(ints[q]) = 0 THEN 1 ELSE Abs(IntOf(ints[q]))]]

ParamsOf(lab) == {lab[k] : k \in {q \in 1..Len(lab) : IsParam(lab[q])}}

(* syntactic linearity in the parameters (C04, C20): class of the sub-tree starting at p,
   "const" (no parameter), "lin" (affine in the parameters) or "non"; returns <<class, next position>> *)
RECURSIVE LinAt(_, _, _)
LinAt(sh, lab, p) ==
  IF sh[p] = 0 THEN <<IF IsParam(lab[p]) THEN "lin" ELSE "const", p + 1>>
  ELSE IF sh[p] = 1
       THEN LET c == LinAt(sh, lab, p + 1) IN <<IF c[1] = "const" THEN "const" ELSE "non", c[2]>>
       ELSE LET l == LinAt(sh, lab, p + 1)
                r == LinAt(sh, lab, l[2])
                cls == IF l[1] = "non" \/ r[1] = "non" THEN "non"
                       ELSE IF l[1] = "const" /\ r[1] = "const" THEN "const"
                       ELSE IF lab[p] \in {"+", "-"} THEN "lin"
                       ELSE IF lab[p] = "*" THEN (IF l[1] = "const" \/ r[1] = "const" THEN "lin" ELSE "non")
                       ELSE IF lab[p] = "/" THEN (IF r[1] = "const" THEN "lin" ELSE "non")
                       ELSE "non"
            IN <<cls, r[2]>>
LinClass(sh, lab) == LinAt(sh, lab, 1)[1]

(* linearity in PARAMETER ATOMS (C04): an atom is a maximal x-free sub-tree that contains a parameter (e.g. inv(a0), a0*a1);
   the tree is "lin" here if it is affine in the values of its atoms.  Returns [cls, xfree, nxt, roots] with roots the set of
   positions at which atoms start. *)
RECURSIVE AtomAt(_, _, _)
AtomAt(sh, lab, p) ==
  IF sh[p] = 0
  THEN [cls |-> IF IsParam(lab[p]) THEN "atom" ELSE "const", xfree |-> lab[p] # "x", nxt |-> p + 1, roots |-> IF IsParam(lab[p]) THEN {p} ELSE {}]
  ELSE IF sh[p] = 1
       THEN LET c == AtomAt(sh, lab, p + 1) IN
            IF c.xfree THEN [cls |-> c.cls, xfree |-> TRUE, nxt |-> c.nxt, roots |-> IF c.cls = "atom" THEN {p} ELSE {}]
            ELSE [cls |-> IF c.cls = "const" THEN "const" ELSE "non", xfree |-> FALSE, nxt |-> c.nxt, roots |-> c.roots]
       ELSE LET l == AtomAt(sh, lab, p + 1)
                r == AtomAt(sh, lab, l.nxt)
            IN IF l.xfree /\ r.xfree
               THEN LET a == l.cls = "atom" \/ r.cls = "atom" IN
                    [cls |-> IF a THEN "atom" ELSE "const", xfree |-> TRUE, nxt |-> r.nxt, roots |-> IF a THEN {p} ELSE {}]
               ELSE LET L == IF l.cls = "atom" THEN "lin" ELSE l.cls
                        R == IF r.cls = "atom" THEN "lin" ELSE r.cls
                        cls == IF L = "non" \/ R = "non" THEN "non"
                               ELSE IF L = "const" /\ R = "const" THEN "const"
                               ELSE IF lab[p] \in {"+", "-"} THEN "lin"
                               ELSE IF lab[p] = "*" THEN (IF L = "const" \/ R = "const" THEN "lin" ELSE "non")
                               ELSE IF lab[p] = "/" THEN (IF R = "const" THEN "lin" ELSE "non")
                               ELSE "non"
                    IN [cls |-> cls, xfree |-> FALSE, nxt |-> r.nxt, roots |-> l.roots \cup r.roots]
AtomLin(sh, lab) == LET a == AtomAt(sh, lab, 1) IN
                      [cls |-> IF a.cls = "atom" THEN "lin" ELSE a.cls, roots |-> a.roots]

(* --- invariants (C01) --- *)
ParamsInOrder ==   \* parameters are a0..a(k-1) in order of first appearance
  Renumber => \A k \in 1..Len(labels) : IsParam(labels[k]) =>
     labels[k] = "a" \o ToString(Cardinality({q \in 1..(k - 1) : IsParam(labels[q])}))
LabelsFromBasis == \A k \in 1..Len(labels) :
     \/ \E b \in 1..Len(BasisOf(shape[k])) : BasisOf(shape[k])[b] = labels[k]
     \/ (Renumber /\ shape[k] = 0 /\ IsParam(labels[k]))
LinImpliesAtomLin == Complete => (LinClass(shape, labels) = "lin" => AtomLin(shape, labels).cls = "lin")
EmitPosInRange == Complete => EmitPos(shape, labels) \in 0..(TreesOfShape(shape) - 1)

EmitTree == Complete =>
   PrintT(ToJson([shape |-> shape, labels |-> labels, pos |-> EmitPos(shape, labels),
                  infix |-> Infix(shape, labels), lin |-> LinClass(shape, labels), alin |-> AtomLin(shape, labels),
                  code |-> Code(labels, ParamsOf(labels))]))
=============================================================================
