------------------------------ MODULE HistTrace ------------------------------
(***************************************************************************)
(* Trace validation of the file operations of a recorded history (C16).    *)
(* Events (first line is a header {ev:"header", observed: k, declared:     *)
(* [file ids]}):  {ev:"open", call, f, mode in r|w|a|r+, existed}  and     *)
(* {ev:"remove", call, f}.  writer[f] is the call that last (re)created f  *)
(* (0: given before the history).  The observed call obeys Hist!Indep iff  *)
(* every file it reads or appends to is a declared input or has            *)
(* writer[f] = observed.                                                   *)
(***************************************************************************)
EXTENDS Naturals, Integers, Sequences, FiniteSets, TLC, Json, IOUtils
Trace == ndJsonDeserialize(IOEnv.CASES)
Obs == Trace[1].observed
Decl == {Trace[1].declared[i] : i \in 1..Len(Trace[1].declared)}
NF == Trace[1].nfiles
VARIABLES l, writer, present
tvars == <<l, writer, present>>
TInit == /\ l = 2 /\ TLCSet(1, 0)
         /\ writer = [f \in 1..NF |-> 0]
         /\ present = [f \in 1..NF |-> Trace[1].initial[f]]
Ev == Trace[l]
TOpen == /\ l <= Len(Trace) /\ Ev.ev = "open" /\ l' = l + 1
         /\ IF Ev.mode = "w" \/ (Ev.mode = "a" /\ ~present[Ev.f])
            THEN writer' = [writer EXCEPT ![Ev.f] = Ev.call] /\ present' = [present EXCEPT ![Ev.f] = TRUE]
            ELSE UNCHANGED <<writer, present>>
TRemove == /\ l <= Len(Trace) /\ Ev.ev = "remove" /\ l' = l + 1
           /\ present' = [present EXCEPT ![Ev.f] = FALSE]
           /\ writer' = [writer EXCEPT ![Ev.f] = Ev.call]
TNext == TOpen \/ TRemove
TSpec == TInit /\ [][TNext]_tvars

Check(name, cond) == cond \/ PrintT(ToJson([violated |-> name, at |-> l - 1, f |-> Ev.f]))
(* evaluated in the state BEFORE the event is consumed *)
ReadsOnlyOwnOrDeclared ==
  (l <= Len(Trace) /\ Ev.call = Obs /\ Ev.ev = "open" /\ Ev.mode \in {"r", "r+"} /\ present[Ev.f]) =>
     Check("reads_only_declared_inputs_or_own_files", Ev.f \in Decl \/ writer[Ev.f] = Obs)
AppendsOnlyOwn ==
  (l <= Len(Trace) /\ Ev.call = Obs /\ Ev.ev = "open" /\ Ev.mode = "a" /\ present[Ev.f]) =>
     Check("appends_only_to_files_it_created", writer[Ev.f] = Obs)
Consumed == TLCSet(1, IF l > TLCGet(1) THEN l ELSE TLCGet(1))
Accepted == /\ PrintT(ToJson([consumed |-> TLCGet(1) - 1, total |-> Len(Trace)]))
            /\ TLCGet(1) = Len(Trace) + 1
=============================================================================
