------------------------------ MODULE Rewrite ------------------------------
(***************************************************************************)
(* C11: rewritten ("extra") trees.  DESIGN.md 5 (C11).                     *)
(*                                                                         *)
(* The 800 lines of splice arithmetic of update_tree / update_sums         *)
(* (generator.py:576-1395) are NOT transcribed.  This module states        *)
(*   (1) the RELATION every rewritten tree must satisfy with respect to    *)
(*       the tree it came from:  RewriteOK(orig, new, B, ...);             *)
(*   (2) the law of the list the driver find_additional_trees returns      *)
(*       (DriverListOK);                                                   *)
(*   (3) an abstract driver (closure of a one-step rewrite relation over a *)
(*       finite universe of trees, guarded by "not yet in the list") whose *)
(*       model check gives the design argument: it terminates after at     *)
(*       most K-1 additions, the list has no repetition, starts with the   *)
(*       original, and -- if every single step preserves the function --   *)
(*       every member denotes the function of the ORIGINAL (so the judge   *)
(*       may compare every member with the original, not with its source). *)
(*                                                                         *)
(* A basis B is a triple <<B0, B1, B2>> of label sequences.                *)
(***************************************************************************)
EXTENDS Naturals, Integers, Sequences, FiniteSets, TLC

T == INSTANCE Trees WITH N <- 1, B0 <- <<>>, B1 <- <<>>, B2 <- <<>>, Renumber <- FALSE,
                         st <- [phase |-> "idle"], shape <- <<>>, labels <- <<>>, nparam <- 0

Range(s) == {s[k] : k \in 1..Len(s)}
UNDECIDED == -1      \* P1 could not classify (fewer than 3 finite points): clause not applicable

---------------------------------------------------------------------------
(* (1) the relation *)

(* an integer literal: the harness supplies a witness z (0 when it has none), the spec checks
   that the label IS the decimal text of z -- no string parsing on either side *)
IsIntLit(l, z) == ToString(z) = l

(* arity of a label relative to basis B; 9 = not in the vocabulary *)
ArityIn(B, l, z) ==
  IF l \in Range(B[2]) THEN 1
  ELSE IF l \in Range(B[3]) THEN 2
  ELSE IF l = "x" \/ T!IsParam(l) \/ IsIntLit(l, z) THEN 0
  ELSE 9

Arities(B, lab, wit) == [k \in 1..Len(lab) |-> ArityIn(B, lab[k], wit[k])]

(* every label is an operator of B, "x", a parameter a<j> or an integer literal *)
Vocabulary(B, lab, wit) == \A k \in 1..Len(lab) : ArityIn(B, lab[k], wit[k]) # 9

(* a well-formed prefix tree: arities known and the arity string is a valid Lukasiewicz word *)
WellFormed(B, lab, wit) ==
  LET ar == Arities(B, lab, wit) IN
    /\ Len(lab) > 0
    /\ \A k \in 1..Len(ar) : ar[k] \in 0..2
    /\ T!Valid(ar)

(* "with the same parameter names": a rewrite never invents a parameter *)
SameParams(orig, new) == T!ParamsOf(new) \subseteq T!ParamsOf(orig)

(* sem(new) = sem(orig), carried as P1 class ids *)
SameFunction(clsOrig, clsNew) == clsOrig = UNDECIDED \/ clsNew = UNDECIDED \/ clsOrig = clsNew

RewriteOK(orig, new, B, wit, clsOrig, clsNew) ==
  /\ WellFormed(B, new, wit)
  /\ Vocabulary(B, new, wit)
  /\ SameParams(orig, new)
  /\ SameFunction(clsOrig, clsNew)

---------------------------------------------------------------------------
(* (2) the driver's list, as interned ids of label lists (projection P4) *)
NoRepetition(ids)         == Cardinality(Range(ids)) = Len(ids)
FirstIsOriginal(ids, oid) == Len(ids) >= 1 /\ ids[1] = oid
DriverListOK(ids, oid)    == NoRepetition(ids) /\ FirstIsOriginal(ids, oid)

---------------------------------------------------------------------------
(* (3) the abstract driver *)
CONSTANT K                    \* size of the abstract universe of trees; tree 1 is the original
VARIABLES rel,                \* one-step rewrite relation (what update_tree / update_sums offer)
          sem,                \* function denoted by each abstract tree
          lst,                \* the driver's list
          done
dvars == <<rel, sem, lst, done>>
U == 1..K

DInit == /\ sem \in [U -> 0..1]
         /\ rel \in SUBSET {p \in U \X U : sem[p[1]] = sem[p[2]]}     \* every single step is sound
         /\ lst = <<1>>
         /\ done = FALSE
Offered == {r \in U : (\E i \in 1..Len(lst) : <<lst[i], r>> \in rel) /\ r \notin Range(lst)}
Grow   == /\ ~done /\ \E r \in Offered : lst' = Append(lst, r)
          /\ UNCHANGED <<rel, sem, done>>
Finish == /\ ~done /\ Offered = {} /\ done' = TRUE
          /\ UNCHANGED <<rel, sem, lst>>
DNext  == Grow \/ Finish
DSpec  == DInit /\ [][DNext]_dvars /\ WF_dvars(DNext)

DListOK       == DriverListOK(lst, 1)
DStepBound    == Len(lst) <= K                           \* at most K-1 additions
DGrowsByRel   == \A k \in 2..Len(lst) : \E i \in 1..(k - 1) : <<lst[i], lst[k]>> \in rel
DSameAsOrig   == \A k \in 1..Len(lst) : sem[lst[k]] = sem[1]
DClosedAtEnd  == done => \A i \in 1..Len(lst), r \in U : <<lst[i], r>> \in rel => r \in Range(lst)
DTerminates   == <>done
=============================================================================
