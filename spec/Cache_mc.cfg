SPECIFICATION Spec
CONSTANT Protocol = TRUE
INVARIANT TypeOK
INVARIANT GridIncreasing
INVARIANT GridStartsAtOne
INVARIANT GridCoversData
INVARIANT MaskCorrect
INVARIANT MaskOrder
INVARIANT BuiltFromSample
INVARIANT ObsIsCurrent
INVARIANT Emit
PROPERTY RebuiltAfterClear
PROPERTY ClearClears
CHECK_DEADLOCK FALSE
