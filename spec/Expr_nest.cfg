SPECIFICATION NestSpec
INVARIANT OnlyGrammar
INVARIANT Emit
CHECK_DEADLOCK FALSE
