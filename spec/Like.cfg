SPECIFICATION Spec
INVARIANT TypeOK
INVARIANT InfIffBadEntry
INVARIANT OrdinaryIsValue
INVARIANT LinWellFormed
INVARIANT LinShape
INVARIANT ZeroIffPerfectFit
INVARIANT RaiseRule
INVARIANT Emit
CHECK_DEADLOCK FALSE
