-------------------------------- MODULE Rank --------------------------------
(***************************************************************************)
(* The final table of a complexity (combine_DL).  DESIGN.md 3.8, C06.      *)
(*                                                                         *)
(* Values are small naturals plus the IEEE tokens INF and NAN; + , min and *)
(* <= follow the IEEE rules (NAN absorbing in +, ignored by min).          *)
(* A table is a sequence of variants [idx, nll, plen, tlen] (file order);  *)
(* idx is the unique function the variant belongs to.  The required output *)
(* is a RELATION Combine(tab, rows): ties may be ordered either way and    *)
(* any variant attaining the minimum may be reported.                      *)
(***************************************************************************)
EXTENDS Naturals, Integers, Sequences, FiniteSets, TLC, Json

CONSTANTS U,            \* number of unique functions
          K,            \* maximal number of variants in a table
          NllV, PlenV, TlenV   \* value alphabets

INF == 1000
NAN == -1
Fin(a) == a # INF /\ a # NAN
Plus(a, b) == IF a = NAN \/ b = NAN THEN NAN ELSE IF a = INF \/ b = INF THEN INF ELSE a + b
Leq(a, b)  == a # NAN /\ b # NAN /\ a <= b         \* INF = 1000 exceeds every finite sum here
DLv(v) == Plus(Plus(v.nll, v.plen), v.tlen)

VarsOf(tab, u)  == {k \in 1..Len(tab) : tab[k].idx = u}
Present(tab, u) == \E k \in VarsOf(tab, u) : DLv(tab[k]) # NAN
MinDL(tab, u)   == LET ds == {DLv(tab[k]) : k \in VarsOf(tab, u)} \ {NAN}
                   IN CHOOSE d \in ds : \A e \in ds : d <= e
Uniques == 0..(U - 1)

---------------------------------------------------------------------------
(* The relation.  rows[i] = [v, dl, nll, plen, tlen, theta, rank, zero]:   *)
(*   v     index (1-based) of the variant whose function string the row    *)
(*         shows (0 if the string is not a variant of the table)           *)
(*   theta the marker stored in the variant's parameter column             *)
(*   zero  relative probability is exactly 0                               *)
(* obs = [nonneg, prop, sum1]: projections of the probability column (P3)  *)
RowU(tab, r) == tab[r.v].idx
ClausesFor(uniques, tab, rows, obs) ==
  LET n == Len(rows)
      known == \A i \in 1..n : rows[i].v \in 1..Len(tab)
  IN
  (IF ~known THEN {"function_of_a_variant"} ELSE
      (IF {RowU(tab, rows[i]) : i \in 1..n} # {u \in uniques : Present(tab, u)} THEN {"row_per_unique"} ELSE {})
    \cup (IF \E i, j \in 1..n : i # j /\ RowU(tab, rows[i]) = RowU(tab, rows[j]) THEN {"unique_once"} ELSE {})
    \cup (IF \E i \in 1..n : Present(tab, RowU(tab, rows[i])) /\ rows[i].dl # MinDL(tab, RowU(tab, rows[i]))
          THEN {"minimum_over_variants"} ELSE {})
    \cup (IF \E i \in 1..n : /\ Present(tab, RowU(tab, rows[i]))
                             /\ Fin(MinDL(tab, RowU(tab, rows[i])))
                             /\ LET v == tab[rows[i].v] IN
                                  ~(/\ DLv(v) = MinDL(tab, RowU(tab, rows[i]))
                                    /\ rows[i].nll = v.nll /\ rows[i].plen = v.plen /\ rows[i].tlen = v.tlen
                                    /\ rows[i].theta = rows[i].v)
          THEN {"attaining_variant"} ELSE {}))
  \cup (IF \E i \in 1..n : Fin(rows[i].dl) /\ rows[i].dl # Plus(Plus(rows[i].nll, rows[i].plen), rows[i].tlen)
        THEN {"dl_is_sum_of_terms"} ELSE {})
  \cup (IF \E i, j \in 1..n : i < j /\ ~Leq(rows[i].dl, rows[j].dl) THEN {"non_decreasing"} ELSE {})
  \cup (IF \E i \in 1..n : rows[i].rank # i - 1 THEN {"consecutive_ranks"} ELSE {})
  \cup (IF ~obs.nonneg THEN {"prel_non_negative"} ELSE {})
  \cup (IF n > 0 /\ Fin(rows[1].dl) THEN
          (IF ~obs.prop THEN {"prel_proportional"} ELSE {})
     \cup (IF ~obs.sum1 THEN {"prel_sums_to_one"} ELSE {})
     \cup (IF \E i \in 1..n : rows[i].zero #
                 (rows[i].dl = INF \/ \E j \in 1..(i - 1) : rows[j].nll # NAN /\ rows[j].nll = rows[i].nll)
           THEN {"repeated_likelihood_zeroed"} ELSE {})
        ELSE {})

Clauses(tab, rows, obs) == ClausesFor(Uniques, tab, rows, obs)
Combine(tab, rows, obs) == Clauses(tab, rows, obs) = {}

---------------------------------------------------------------------------
(* Table builder: one behaviour per table; every table with >= 2 variants is emitted *)
VARIABLE tab
Init == tab = <<>>
AddVariant == /\ Len(tab) < K
              /\ \E i \in Uniques, a \in NllV, b \in PlenV, c \in TlenV :
                   tab' = Append(tab, [idx |-> i, nll |-> a, plen |-> b, tlen |-> c])
Spec == Init /\ [][AddVariant]_tab
(* for TLC -simulate: one random successor per step (TLC evaluates invariants on every generated
   successor, so the nondeterministic AddVariant would emit all of them) *)
SimAdd == /\ Len(tab) < K
          /\ tab' = Append(tab, [idx |-> RandomElement(Uniques), nll |-> RandomElement(NllV),
                                 plen |-> RandomElement(PlenV), tlen |-> RandomElement(TlenV)])
SimSpec == Init /\ [][SimAdd]_tab

(* a reference output (ties by file order) -- shows the relation is satisfiable for every table *)
RECURSIVE InsertSorted(_, _)
InsertSorted(s, r) == IF s = <<>> THEN <<r>>
                      ELSE IF Leq(Head(s).dl, r.dl) THEN <<Head(s)>> \o InsertSorted(Tail(s), r)
                      ELSE <<r>> \o s
RefRow(t, u) == LET m == MinDL(t, u)
                    k == CHOOSE k \in VarsOf(t, u) : DLv(t[k]) = m /\ \A q \in VarsOf(t, u) : DLv(t[q]) = m => k <= q
                IN [v |-> k, dl |-> m, nll |-> t[k].nll, plen |-> t[k].plen, tlen |-> t[k].tlen, theta |-> k, rank |-> 0, zero |-> FALSE]
RECURSIVE RefRows(_, _)
RefRows(t, u) == IF u < 0 THEN <<>> ELSE
                 IF Present(t, u) THEN InsertSorted(RefRows(t, u - 1), RefRow(t, u)) ELSE RefRows(t, u - 1)
Renumber(s) == [i \in 1..Len(s) |-> [s[i] EXCEPT !.rank = i - 1,
                   !.zero = (s[i].dl = INF \/ \E j \in 1..(i - 1) : s[j].nll # NAN /\ s[j].nll = s[i].nll)]]
RefOut(t) == Renumber(RefRows(t, U - 1))
AllOK == [nonneg |-> TRUE, prop |-> TRUE, sum1 |-> TRUE]

Satisfiable == Combine(tab, RefOut(tab), AllOK)
(* the top row is not beaten by any variant (the link to C04) *)
TopIsMinimum == LET out == RefOut(tab) IN
                  Len(out) > 0 => \A k \in 1..Len(tab) : DLv(tab[k]) # NAN => Leq(out[1].dl, DLv(tab[k]))
(* dropping a row, or reporting a non-minimal variant, is rejected (the relation is not vacuous) *)
Sensitive == LET out == RefOut(tab) IN
               Len(out) > 1 => /\ ~Combine(tab, Tail(out), AllOK)
                               /\ ~Combine(tab, <<out[2], out[1]>> \o SubSeq(out, 3, Len(out)), AllOK) \/ out[1].dl = out[2].dl
EmitTable == Len(tab) >= 2 => PrintT(ToJson(tab))
=============================================================================
