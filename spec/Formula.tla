------------------------------ MODULE Formula ------------------------------
(***************************************************************************)
(* Formula strings "over a basis" (property C18): the grammar of the       *)
(* strings a user hands to string_to_node / fit_from_string /              *)
(* string_to_aifeyn, the model's own tree of every formula (prefix token   *)
(* sequence), the positions of numbers that are exponents, and a state     *)
(* machine that builds every formula up to a depth bound (exhaustive in    *)
(* model-checking mode, random deeper formulas with -simulate).            *)
(*                                                                         *)
(* A term is a record                                                      *)
(*   tok  prefix token sequence: the tree the formula denotes, labelled    *)
(*        with the operator names of the basis (x | a0..a2 | number |      *)
(*        unary basis operator | + - * / pow)                              *)
(*   sb   the formula written with the operator names of the basis:        *)
(*        op(arg), pow(l,r), infix + - * /                                 *)
(*   sp   the same formula in the plain notation a user also writes:       *)
(*        inv(e) -> 1/e, square(e) -> e**2, cube(e) -> e**3,               *)
(*        sqrt_abs(e) -> sqrt(e), log_abs(e) -> log(e), pow(l,r) -> l**r   *)
(*   d    depth;  ex  positions (in tok) of numbers that are exponents     *)
(*                                                                         *)
(* Grammar: leaves x | a0..a2 | a number of Numbers; op(e) for every unary  *)
(* operator of the basis; l op r for every binary operator.  Not written:  *)
(* an operator joining two number leaves (2+3), a negative number as power *)
(* base or as argument of a square root / logarithm.  In the exhaustive    *)
(* mode the sibling of a term of depth >= 1 is a leaf of Sibs; in the      *)
(* simulation mode it is any term of depth <= 1.                           *)
(*                                                                         *)
(* Semantics of tok (evaluated by the harness' independent evaluator):     *)
(* ESR's operators, pow / sqrt_abs / log_abs / log10_abs act on |.|.  The  *)
(* plain notation means the same function wherever every power base and    *)
(* every sqrt / log argument is positive -- exactly the proviso of C18.    *)
(***************************************************************************)
EXTENDS Naturals, Integers, Sequences, FiniteSets, TLC, Json

CONSTANTS U1,        \* unary operators of the basis  (sequence of strings, basis order)
          U2,        \* binary operators of the basis (sequence of strings)
          Leaves,    \* leaf tokens of depth-0 terms and siblings of depth-0 terms (set)
          Sibs,      \* leaf tokens attached as the sibling of a term of depth >= 1 (set)
          SibDepth,  \* 0: siblings of deeper terms are the leaves Sibs; 1: every term of depth <= 1
          MaxDepth   \* depth bound

T == INSTANCE Trees WITH N <- 1, B0 <- <<>>, B1 <- <<>>, B2 <- <<>>, Renumber <- FALSE,
                         st <- [phase |-> "idle"], shape <- <<>>, labels <- <<>>, nparam <- 0

Numbers  == {"2", "3", "0.5", "-1", "1.5", "1.000004"}
Negative == {"-1"}
Params   == {"a0", "a1", "a2"}
Rng(s)   == {s[k] : k \in 1..Len(s)}

---------------------------------------------------------------------------
(* Trees in prefix order, given as (labels, arities).  Shared with FormulaJudge.tla. *)
RECURSIVE End(_, _)          \* position just after the subtree rooted at p (arity string valid)
End(ar, p) == IF ar[p] = 0 THEN p + 1
              ELSE IF ar[p] = 1 THEN End(ar, p + 1)
              ELSE End(ar, End(ar, p + 1))
PowAt(lab, ar) == {p \in 1..Len(lab) : lab[p] = "pow" /\ ar[p] = 2}
(* the exponent of a power is its right child *)
ExpPos(lab, ar)    == {End(ar, p + 1) : p \in PowAt(lab, ar)}
(* every position of an exponent sub-tree *)
InsideExp(lab, ar) == UNION {End(ar, p + 1)..(End(ar, End(ar, p + 1)) - 1) : p \in PowAt(lab, ar)}

---------------------------------------------------------------------------
(* Terms and their two written forms *)
Ar(tk)    == IF tk \in Rng(U1) THEN 1 ELSE IF tk \in Rng(U2) THEN 2 ELSE 0
ArSeq(tk) == [k \in 1..Len(tk) |-> Ar(tk[k])]
Atom(e)   == Len(e.tok) = 1
PB(e)     == IF Atom(e) THEN e.sb ELSE "(" \o e.sb \o ")"
PP(e)     == IF Atom(e) THEN e.sp ELSE "(" \o e.sp \o ")"
Shift(S, k) == {p + k : p \in S}
Max(p, q) == IF p > q THEN p ELSE q

Leaf(l) == LET s == IF l \in Negative THEN "(" \o l \o ")" ELSE l
           IN [tok |-> <<l>>, sb |-> s, sp |-> s, d |-> 0, ex |-> {}]

Un(u, e) ==
  [tok |-> <<u>> \o e.tok,
   sb  |-> u \o "(" \o e.sb \o ")",
   sp  |-> CASE u = "inv"      -> "1/" \o PP(e)
             [] u = "square"   -> PP(e) \o "**2"
             [] u = "cube"     -> PP(e) \o "**3"
             [] u = "sqrt_abs" -> "sqrt(" \o e.sp \o ")"
             [] u = "log_abs"  -> "log(" \o e.sp \o ")"
             [] OTHER          -> u \o "(" \o e.sp \o ")",
   d   |-> e.d + 1,
   ex  |-> Shift(e.ex, 1)]

Bin(b, l, r) ==
  [tok |-> <<b>> \o l.tok \o r.tok,
   sb  |-> IF b = "pow" THEN "pow(" \o l.sb \o "," \o r.sb \o ")" ELSE PB(l) \o b \o PB(r),
   sp  |-> IF b = "pow" THEN PP(l) \o "**" \o PP(r) ELSE PP(l) \o b \o PP(r),
   d   |-> 1 + Max(l.d, r.d),
   ex  |-> Shift(l.ex, 1) \cup Shift(r.ex, 1 + Len(l.tok))
           \cup (IF b = "pow" /\ Atom(r) /\ r.tok[1] \in Numbers THEN {2 + Len(l.tok)} ELSE {})]

(* what a user does not write: an operator joining two number leaves (2+3), and a negative number
   as a power base or as the argument of a square root / logarithm (nowhere a real function) *)
PositiveArg == {"sqrt_abs", "log_abs", "log10_abs"}
NumLeaf(e) == Atom(e) /\ e.tok[1] \in Numbers
NegLeaf(e) == Atom(e) /\ e.tok[1] \in Negative
OkUn(u, e)     == ~(u \in PositiveArg /\ NegLeaf(e))
OkBin(b, l, r) == ~(NumLeaf(l) /\ NumLeaf(r)) /\ ~(b = "pow" /\ NegLeaf(l))

Grow(e, sibs) ==
       {Un(u, e) : u \in {v \in Rng(U1) : OkUn(v, e)}}
  \cup {Bin(b, e, s) : <<b, s>> \in {bs \in Rng(U2) \X sibs : OkBin(bs[1], e, bs[2])}}
  \cup {Bin(b, s, e) : <<b, s>> \in {bs \in Rng(U2) \X sibs : OkBin(bs[1], bs[2], e)}}

LeafTerms == {Leaf(l) : l \in Leaves}
Terms1    == LeafTerms \cup UNION {Grow(e, LeafTerms) : e \in LeafTerms}       \* every term of depth <= 1
DeepSibs  == IF SibDepth = 0 THEN {Leaf(l) : l \in Sibs} ELSE Terms1
SibsOf(e) == IF e.d = 0 THEN LeafTerms ELSE DeepSibs

---------------------------------------------------------------------------
VARIABLE t
Init == t \in LeafTerms
Next == /\ t.d < MaxDepth
        /\ \E u \in Grow(t, SibsOf(t)) : u.d <= MaxDepth /\ t' = u
Spec == Init /\ [][Next]_t

(* the same step with one successor drawn by TLC's seeded generator: used with -simulate, where
   TLC evaluates the invariants (hence Emit) on every generated successor *)
SimNext == /\ t.d < MaxDepth
           /\ \E s \in {RandomElement(SibsOf(t))} :      \* (a LET-bound RandomElement is drawn again at every use)
                 t' = RandomElement({u \in Grow(t, {s}) : u.d <= MaxDepth})
SimSpec == Init /\ [][SimNext]_t

---------------------------------------------------------------------------
(* invariants of the grammar *)
IsLeafTok(tk) == tk = "x" \/ tk \in Params \/ tk \in Numbers
TokWellFormed ==          \* the model's tree is a well-formed prefix tree over the vocabulary
  /\ T!Valid(ArSeq(t.tok))
  /\ \A k \in 1..Len(t.tok) : Ar(t.tok[k]) = 0 => IsLeafTok(t.tok[k])
DepthBounded == t.d <= MaxDepth
ExponentsAgree ==         \* the constructive bookkeeping of exponent numbers = the declarative definition
  t.ex = {q \in ExpPos(t.tok, ArSeq(t.tok)) : t.tok[q] \in Numbers}
PlainOnlyWhereRenamed ==  \* the two written forms differ only if the tree has an operator with a plain notation
  (t.sb # t.sp) => \E k \in 1..Len(t.tok) : t.tok[k] \in {"inv", "square", "cube", "sqrt_abs", "log_abs", "pow"}

GrammarRules ==           \* the restrictions of Grow, stated on the tree
  LET ar == ArSeq(t.tok) IN
  \A p \in 1..Len(t.tok) :
    /\ (ar[p] = 2 => ~(t.tok[p + 1] \in Numbers /\ t.tok[End(ar, p + 1)] \in Numbers))
    /\ (t.tok[p] = "pow" \/ t.tok[p] \in PositiveArg => t.tok[p + 1] \notin Negative)

(* every formula reached is handed to the harness *)
Emit == PrintT(ToJson([tok |-> t.tok, sb |-> t.sb, sp |-> t.sp, d |-> t.d,
                       ex |-> [q \in 1..Len(t.tok) |-> q \in t.ex]]))
=============================================================================
