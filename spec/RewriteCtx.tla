----------------------------- MODULE RewriteCtx -----------------------------
(***************************************************************************)
(* Inputs for the rewriting driver (C11) above the exhaustive range of     *)
(* Trees!LabelSpec: the rewrites of update_tree / update_sums are          *)
(* triggered by a chain of unary operators (log_abs/exp over inv, square,  *)
(* cube, sqrt_abs, ...) and spliced into the prefix list of the whole      *)
(* tree, so what matters is WHERE the chain sits: alone, as left or right  *)
(* operand, below a second operator, with siblings before and after it.    *)
(* A tree here is Context[Trigger]:                                        *)
(*   Trigger = u1(u2(..(leaf)))  with 1..ChainMax <= 5 unary operators     *)
(*   Context = the hole; hole b l; l b hole; (g b hole) c l;               *)
(*             (hole b g) c l; l c (g b hole); l c (hole b g);             *)
(*             u(hole b l); u(l b hole); and (kind 10) the chain applied   *)
(*             to (g b l) instead of a leaf                                *)
(* with b, c binary, u unary, g, l leaves.  Trees have at most             *)
(* ChainMax + 5 nodes.  Parameters are numbered in order of appearance,    *)
(* as generate_equations numbers them.  One state per (trigger, context).                *)
(***************************************************************************)
EXTENDS Naturals, Sequences, FiniteSets, TLC, Json

CONSTANTS B1, B2,      \* sequences of the unary / binary operator names of the basis
          ChainMax,      \* 1..5: longest chain of unary operators
          KindSet        \* the contexts used, a subset of 1..9 ({1}: the bare chain - towers of powers over exp / log)

Un  == {B1[i] : i \in 1..Len(B1)}
Bin == {B2[i] : i \in 1..Len(B2)}
Leaves == {"x", "a"}
Kinds == 1..10

(* one state per (trigger, context); the variables a context does not use are pinned to a default *)
VARIABLES len, u1, u2, u3, u4, u5, leaf,     \* the trigger: len unary operators (outermost first) over leaf
          kind, b, c, g, l, u                \* the context
vars == <<len, u1, u2, u3, u4, u5, leaf, kind, b, c, g, l, u>>
D1 == B1[1]
D2 == B2[1]
Pin(cond, S, d) == IF cond THEN S ELSE {d}
Init == /\ kind \in KindSet
        /\ b \in Pin(kind # 1, Bin, D2) /\ l \in Pin(kind # 1, Leaves, "x")
        /\ c \in Pin(kind \in {4, 5, 6, 7}, Bin, D2) /\ g \in Pin(kind \in {4, 5, 6, 7, 10}, Leaves, "x")
        /\ u \in Pin(kind \in {8, 9}, Un, D1)
        /\ len \in 1..ChainMax /\ u1 \in Un /\ leaf \in Pin(kind # 10, Leaves, "x")
        /\ u2 \in Pin(len >= 2, Un, D1) /\ u3 \in Pin(len >= 3, Un, D1) /\ u4 \in Pin(len >= 4, Un, D1) /\ u5 \in Pin(len >= 5, Un, D1)
Next == UNCHANGED vars
Spec == Init /\ [][Next]_vars

T == SubSeq(<<u1, u2, u3, u4, u5>>, 1, len) \o <<leaf>>
tree == CASE kind = 1 -> T
          [] kind = 2 -> <<b>> \o T \o <<l>>                 \* T b l
          [] kind = 3 -> <<b, l>> \o T                        \* l b T
          [] kind = 4 -> <<c, b, g>> \o T \o <<l>>            \* (g b T) c l
          [] kind = 5 -> <<c, b>> \o T \o <<g, l>>            \* (T b g) c l
          [] kind = 6 -> <<c, l, b, g>> \o T                   \* l c (g b T)
          [] kind = 7 -> <<c, l, b>> \o T \o <<g>>            \* l c (T b g)
          [] kind = 8 -> <<u, b>> \o T \o <<l>>               \* u(T b l)
          [] kind = 9 -> <<u, b, l>> \o T                      \* u(l b T)
          [] kind = 10 -> SubSeq(<<u1, u2, u3, u4, u5>>, 1, len) \o <<b, g, l>>    \* the chain over (g b l): sub-trees sympy evaluates (x - x, x / x)

ArityOf(x) == IF x \in Bin THEN 2 ELSE IF x \in Un THEN 1 ELSE 0
NumberParams(t) == [k \in 1..Len(t) |-> IF t[k] = "a" THEN "a" \o ToString(Cardinality({q \in 1..(k - 1) : t[q] = "a"})) ELSE t[k]]

(* a prefix list is a tree iff the running count of open operand slots reaches 0 exactly at the end *)
RECURSIVE Open(_, _)
Open(t, k) == IF k = 0 THEN 1 ELSE Open(t, k - 1) - 1 + ArityOf(t[k])
WellFormed(t) == Open(t, Len(t)) = 0 /\ \A k \in 1..(Len(t) - 1) : Open(t, k) > 0

AllWellFormed == WellFormed(tree)
Bounded == Len(tree) <= ChainMax + 5
EmitTree == PrintT(ToJson([labels |-> NumberParams(tree), shape |-> [k \in 1..Len(tree) |-> ArityOf(tree[k])]]))
=============================================================================
