-------------------------------- MODULE Snap --------------------------------
(***************************************************************************)
(* Zero-snapping and parameter code length as a decision procedure         *)
(* (DESIGN.md 3.7; test_all_Fisher.convert_params:186-239 and the same     *)
(* logic with the transferred Fisher diagonal in match.py:104-229).        *)
(*                                                                         *)
(* Input of one case (what the decision depends on):                       *)
(*   k        number of parameters (1..3); parameters are 1..k             *)
(*   small    set of parameters with |theta_i| sqrt(I_ii/12) < 1           *)
(*   tie      set of parameters exactly at the threshold (floating point   *)
(*            may put them on either side)                                 *)
(*   curv[i]  "pos" | "nonpos" | "nonfinite"  (I_ii)                       *)
(*   bad      set of subsets Z of the parameters such that the likelihood  *)
(*            is NOT finite when exactly the parameters in Z are zero      *)
(* Output (projection of what the routine returned):                       *)
(*   len      "nan" | "posinf" | "finite"                                  *)
(*   zeros    set of parameters reported as exactly 0                      *)
(*   formula  the finite length equals -(kk/2) ln 3 + sum over the kept    *)
(*            parameters of (1/2 ln I_ii + ln|theta_i|), kk = #kept  (P3)  *)
(*   nllok    the reported -log L is the likelihood at the reported params *)
(* The property does not say which parameters are dropped when dropping    *)
(* all small ones makes the likelihood infinite: any non-empty subset that *)
(* keeps it finite is admitted; dropping nothing is admitted only when no  *)
(* small parameter can be zeroed on its own ("set to zero and dropped      *)
(* provided the likelihood stays finite") - a relation, not a function.    *)
(***************************************************************************)
EXTENDS Naturals, FiniteSets, Sequences, TLC, Json

CONSTANTS KMax

Params(k) == 1..k
Fin(bad, Z) == Z \notin bad

(* admissible dropped sets: with S the set of small parameters, nothing is dropped if S is empty, exactly S
   if the likelihood stays finite, otherwise any non-empty subset that keeps it finite (or nothing, when no small
   parameter can be zeroed alone).  Parameters exactly at the threshold may fall on either side. *)
AdmFor(S, bad) == IF S = {} THEN {{}}
                  ELSE IF Fin(bad, S) THEN {S}
                  ELSE LET F == {D \in (SUBSET S) \ {{}} : Fin(bad, D)} IN
                       IF \E i \in S : Fin(bad, {i}) THEN F ELSE F \cup {{}}
Admissible(k, small, tie, bad) == UNION {AdmFor((small \ tie) \cup Y, bad) : Y \in SUBSET tie}

Clauses(c) ==
  LET k == c.k
      small == {c.small[i] : i \in 1..Len(c.small)}
      tie == {c.tie[i] : i \in 1..Len(c.tie)}
      bad == {{c.bad[i][j] : j \in 1..Len(c.bad[i])} : i \in 1..Len(c.bad)}
      zeros == {c.zeros[i] : i \in 1..Len(c.zeros)}
      anyNonpos == \E i \in 1..k : c.curv[i] = "nonpos"
      anyNonfin == \E i \in 1..k : c.curv[i] = "nonfinite"
  IN
  IF anyNonpos THEN (IF c.len # "nan" THEN {"nonpositive_curvature_gives_nan"} ELSE {})
  ELSE IF anyNonfin THEN (IF c.len = "finite" THEN {"nonfinite_curvature_never_finite"} ELSE {})
  ELSE
     (IF c.len # "finite" THEN {"finite_length_expected"} ELSE {})
   \cup (IF zeros \notin Admissible(k, small, tie, bad) THEN {"dropped_set"} ELSE {})
   \cup (IF c.len = "finite" /\ ~c.formula THEN {"length_formula_over_kept"} ELSE {})
   \cup (IF ~c.nllok THEN {"nll_at_reported_parameters"} ELSE {})

---------------------------------------------------------------------------
(* case builder: every decision input with k <= KMax *)
VARIABLES k, small, curv, bad, stage
vars == <<k, small, curv, bad, stage>>
Init == /\ k \in 1..KMax /\ small = {} /\ curv = <<>> /\ bad = {} /\ stage = "small"
ChooseSmall == /\ stage = "small" /\ \E S \in SUBSET Params(k) : small' = S
               /\ stage' = "curv" /\ UNCHANGED <<k, curv, bad>>
ChooseCurv == /\ stage = "curv"
              /\ \E cv \in [Params(k) -> {"pos", "nonpos", "nonfinite"}] :
                    /\ Cardinality({i \in Params(k) : cv[i] # "pos"}) <= 1     \* one defect at a time
                    /\ curv' = cv
              /\ stage' = "bad" /\ UNCHANGED <<k, small, bad>>
ChooseBad == /\ stage = "bad"
             /\ \E B \in SUBSET (SUBSET small \ {{}}) : bad' = B
             /\ stage' = "done" /\ UNCHANGED <<k, small, curv>>
Next == ChooseSmall \/ ChooseCurv \/ ChooseBad
Spec == Init /\ [][Next]_vars

(* the relation is satisfiable: dropping nothing or all small is always among the admissible outcomes *)
NonEmptyAdmissible == stage = "done" => Admissible(k, small, {}, bad) # {}
AllSmallWhenFinite == stage = "done" /\ Fin(bad, small) => Admissible(k, small, {}, bad) = {small}
SetToSeq(S) == CHOOSE s \in [1..Cardinality(S) -> S] : \A i, j \in 1..Cardinality(S) : i < j => s[i] < s[j]
EmitCase == stage = "done" => PrintT(ToJson([k |-> k, small |-> SetToSeq(small), curv |-> curv,
                                              bad |-> {SetToSeq(Z) : Z \in bad}]))
=============================================================================
