SPECIFICATION HSpec
INVARIANT HPost
INVARIANT HRunAgrees
INVARIANT EmitDone
CHECK_DEADLOCK FALSE
