SPECIFICATION LabelSpec
INVARIANT ParamsInOrder
INVARIANT LabelsFromBasis
INVARIANT EmitPosInRange
INVARIANT EmitTree
CHECK_DEADLOCK FALSE
INVARIANT LinImpliesAtomLin
