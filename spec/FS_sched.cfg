SPECIFICATION Spec
INVARIANT EmitSchedule
CHECK_DEADLOCK FALSE
