SPECIFICATION TSpec
INVARIANT TMatched
INVARIANT TNoOrphan
INVARIANT AllExitZero
INVARIANT SameProgram
CONSTRAINT Consumed
POSTCONDITION Accepted
CHECK_DEADLOCK FALSE
