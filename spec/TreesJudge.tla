----------------------------- MODULE TreesJudge -----------------------------
(***************************************************************************)
(* Judge of observations of the real code against Trees.tla (binding A,    *)
(* code -> spec direction): one state per recorded case; the verdict of    *)
(* each case is the set of violated clauses.  Cases come from the NDJSON   *)
(* file named by the environment variable CASES.                           *)
(***************************************************************************)
EXTENDS Naturals, Integers, Sequences, FiniteSets, TLC, Json, IOUtils

T == INSTANCE Trees WITH N <- 1, B0 <- <<>>, B1 <- <<>>, B2 <- <<>>, Renumber <- FALSE,
                         st <- [phase |-> "idle"], shape <- <<>>, labels <- <<>>, nparam <- 0

Cases == ndJsonDeserialize(IOEnv.CASES)
VARIABLE ji
JInit == ji = 1
JNext == ji < Len(Cases) /\ ji' = ji + 1
JSpec == JInit /\ [][JNext]_ji

(* kind "check_tree": what check_tree returned for arity string s *)
CheckTreeClauses(c) ==
    (IF c.success # T!Valid(c.s) THEN {"success_iff_valid"} ELSE {})
  \cup (IF ~T!IsPrefixOf(c.part, c.s) THEN {"part_is_prefix"} ELSE {})
  \cup (IF ~c.success /\ \E v \in T!ValidShapes(Len(c.s)) : T!IsPrefixOf(c.part, v)
        THEN {"pruning_sound"} ELSE {})
  \cup (IF c.success /\ T!Valid(c.s) /\ <<c.parent, c.left, c.right>> #
             LET e == T!CheckTree(c.s) IN <<e.parent, e.left, e.right>>
        THEN {"tree_pointers"} ELSE {})

(* kind "shapes": the list get_allowed_shapes(n) returned *)
ShapesClauses(c) ==
  LET got == {c.shapes[k] : k \in 1..Len(c.shapes)} IN
    (IF got # T!ValidShapes(c.n) THEN {"shape_set"} ELSE {})
  \cup (IF Cardinality(got) # Len(c.shapes) THEN {"shape_repeated"} ELSE {})

(* kind "aifeyn": a structural code length observed for a label list; the harness sends the
   integers it recovered; here: the model's integers for the labels *)
Clauses(c) == CASE c.kind = "check_tree" -> CheckTreeClauses(c)
                [] c.kind = "shapes"     -> ShapesClauses(c)
                [] OTHER                 -> {"unknown_kind"}

Verdict == LET c == Cases[ji] v == Clauses(c) IN
             v = {} \/ PrintT(ToJson([id |-> c.id, failed |-> v]))
Counted == (ji = Len(Cases)) => PrintT(ToJson([judged |-> ji]))
=============================================================================
