------------------------------ MODULE Library ------------------------------
(***************************************************************************)
(* Post-condition of the generation stage (ESR.Gen of DESIGN.md 3.12) as a *)
(* trace specification over a recorded function library.  The harness      *)
(* projects the library files to one event per line (P1 classes, P4 ids);  *)
(* TLC walks the trace, keeps the history it needs (unique strings seen so *)
(* far) and reports, per event, the set of violated clauses.               *)
(*                                                                         *)
(* Events (NDJSON, in this order):                                         *)
(*   header : counts of lines of every per-function file                   *)
(*   uniq   : one per unique-list entry                                    *)
(*   line   : one per function (originals then rewritten trees)            *)
(***************************************************************************)
EXTENDS Naturals, Integers, Sequences, FiniteSets, TLC, Json, IOUtils

T == INSTANCE Trees WITH N <- 1, B0 <- <<>>, B1 <- <<>>, B2 <- <<>>, Renumber <- FALSE,
                         st <- [phase |-> "idle"], shape <- <<>>, labels <- <<>>, nparam <- 0

Cases == ndJsonDeserialize(IOEnv.CASES)
UNDECIDED == -1      \* P1 could not classify (fewer than 3 finite points): clause not applicable
BOTTOM    == -2      \* nowhere-finite function (DESIGN.md section 7, rule 5b)

VARIABLES ji,        \* position in the trace
          uniqIds,   \* string ids of the unique entries consumed so far
          nU,        \* number of unique entries announced by the header
          hdr        \* the header event (counts)
vars == <<ji, uniqIds, nU, hdr>>

JInit == ji = 1 /\ uniqIds = {} /\ nU = 0 /\ hdr = [kind |-> "none"]
JNext == /\ ji < Len(Cases)
         /\ ji' = ji + 1
         /\ LET c == Cases[ji] IN
              /\ uniqIds' = IF c.kind = "uniq" THEN uniqIds \cup {c.sid}
                             ELSE IF c.kind = "header" THEN {} ELSE uniqIds      \* a header starts a new library
              /\ nU' = IF c.kind = "header" THEN c.nuniq ELSE nU
              /\ hdr' = IF c.kind = "header" THEN c ELSE hdr
JSpec == JInit /\ [][JNext]_vars

---------------------------------------------------------------------------
(* header: every per-function file has one line per function (C02, C03, C08 alignment) *)
HeaderClauses(c) ==
    (IF c.ntrees # c.nfun THEN {"trees_vs_functions"} ELSE {})
  \cup (IF c.norig + c.nextra # c.ntrees THEN {"orig_plus_extra"} ELSE {})
  \cup (IF c.naifeyn # c.ntrees THEN {"treecode_vs_trees"} ELSE {})
  \cup (IF c.full /\ c.nmatch # c.nfun THEN {"matches_vs_functions"} ELSE {})
  \cup (IF c.full /\ c.nsubs # c.nfun THEN {"maps_vs_functions"} ELSE {})

(* unique entries: pairwise distinct strings, parameters a0..a(k-1) without gaps *)
UniqClauses(c) ==
    (IF c.sid \in uniqIds THEN {"unique_repeated"} ELSE {})
  \cup (IF c.params # [k \in 1..Len(c.params) |-> k - 1] THEN {"unique_params_contiguous"} ELSE {})

(* one function line *)
Decided(a, b) == a # UNDECIDED /\ b # UNDECIDED
LineClauses(c) ==
    (* C02: the string on the line denotes the tree on the line, in both readings *)
    (IF ~T!Valid(c.ar) THEN {"tree_well_formed"} ELSE {})
  \cup (IF Decided(c.clsTree, c.clsGen) /\ c.clsGen # c.clsTree THEN {"generation_reading"} ELSE {})
  \cup (IF Decided(c.clsTree, c.clsFit) /\ c.clsFit # c.clsTree THEN {"fitting_reading"} ELSE {})
    (* C03: exactly one unique; exact map; unrecoverable only with strictly fewer parameters *)
  \cup (IF c.full /\ ~(c.match \in 0..(nU - 1)) THEN {"match_in_range"} ELSE {})
  \cup (IF c.full /\ c.lost /\ ~(c.kU < c.kF) THEN {"unrecoverable_needs_fewer_params"} ELSE {})
  \cup (IF c.full /\ c.lost /\ c.family = 0 THEN {"unrecoverable_same_family"} ELSE {})
  \cup (IF c.full /\ ~c.lost /\ c.exact = 0 THEN {"map_exact"} ELSE {})
  \cup (IF c.full /\ ~c.lost /\ c.kU > c.kF THEN {"unique_has_more_params"} ELSE {})

Clauses(c) == CASE c.kind = "header" -> HeaderClauses(c)
                [] c.kind = "uniq"   -> UniqClauses(c)
                [] c.kind = "line"   -> LineClauses(c)
                [] OTHER             -> {"unknown_kind"}

(* the model's structural code (integers) for each line is returned for projection P3 (C08) *)
Verdict == LET c == Cases[ji] v == Clauses(c) IN
             /\ (v = {} \/ PrintT(ToJson([id |-> c.id, failed |-> v])))
             /\ (c.kind = "line" /\ c.wantCode =>
                   PrintT(ToJson([id |-> c.id, code |-> T!Code(c.labels, T!ParamsOf(c.labels))])))
Counted == (ji = Len(Cases)) => PrintT(ToJson([judged |-> ji]))
=============================================================================
