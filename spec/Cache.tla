------------------------------- MODULE Cache -------------------------------
(***************************************************************************)
(* The integration-grid cache of PanthLikelihood (DESIGN.md 3.11, C19).    *)
(*   likelihood.py:216-219  clear_data : data_x = data_mask = None         *)
(*   likelihood.py:239-246  get_pred   : when the cache is empty build     *)
(*        data_x    = sort(unique(linspace(1, zmin, min_nz) ++             *)
(*                                linspace(zmin+dz, zmax+dz, nx) ++ zp1))  *)
(*        data_mask = [index of d in data_x : d in zp1]                    *)
(*      otherwise REUSE what is there (the cache is keyed on nothing).     *)
(*                                                                         *)
(* Abstraction.  The axis x = 1+z is a lattice of integer positions:       *)
(*   position 0       the lower limit x = 1 of the integral,               *)
(*   position 2k      the abstract redshift value k in 1..NVals,           *)
(*   odd positions    the fixed (data independent) quadrature nodes in the *)
(*                    open gaps; how many nodes the code puts in a gap is  *)
(*                    abstracted to one.                                   *)
(* A sample Z is any sequence over 1..NVals of length 1..MaxLen (unsorted, *)
(* repeated entries included).  The fixed nodes depend on min/max of Z as  *)
(* in the code: the lower ramp ends ON the smallest data point (linspace   *)
(* endpoint), so the union must merge coinciding nodes; the upper ramp is  *)
(* empty when all data coincide (nx = 0) and reaches one node beyond the   *)
(* largest data point otherwise.                                           *)
(*                                                                         *)
(* Usage protocol (Protocol = TRUE): Predict(Z) on a built cache is called *)
(* only with the sample it was built from; a new sample needs Clear first  *)
(* ("cached grids are rebuilt after being cleared" is all C19 promises).   *)
(* Protocol = FALSE lets TLC show what the protocol is for: the stale grid *)
(* is reused and MaskCorrect fails.                                        *)
(*                                                                         *)
(* hist is a history variable: the calls made so far, each with the        *)
(* projection Obs of the cache after the call.  Every behaviour with       *)
(* MaxCalls calls is emitted (Emit) and replayed into the real object.     *)
(***************************************************************************)
EXTENDS Naturals, Integers, Sequences, FiniteSets, TLC, Json

CONSTANTS NVals,      \* abstract redshift values 1..NVals
          MaxLen,     \* longest sample
          MaxCalls,   \* calls per behaviour
          Protocol    \* TRUE: Predict on a built cache only with the sample it was built from

Vals    == 1..NVals
Samples == UNION {[1..n -> Vals] : n \in 1..MaxLen}

Origin  == 0
Pos(k)  == 2 * k
Range(s) == {s[i] : i \in 1..Len(s)}
SetMin(S) == CHOOSE v \in S : \A w \in S : v <= w
SetMax(S) == CHOOSE v \in S : \A w \in S : w <= v
IsOdd(p)  == p % 2 = 1

(* fixed quadrature nodes for a sample *)
LowerRamp(Z) == LET lo == Pos(SetMin(Range(Z))) IN
                  {Origin, lo} \cup {p \in 1..lo : IsOdd(p)}
UpperRamp(Z) == LET lo == Pos(SetMin(Range(Z))) hi == Pos(SetMax(Range(Z))) IN
                  IF lo = hi THEN {} ELSE {p \in (lo + 1)..(hi + 1) : IsOdd(p)}
DataPos(Z)   == {Pos(Z[i]) : i \in 1..Len(Z)}

RECURSIVE SortSet(_)
SortSet(S) == IF S = {} THEN <<>> ELSE LET m == SetMin(S) IN <<m>> \o SortSet(S \ {m})

BuildGrid(Z)    == SortSet(LowerRamp(Z) \cup UpperRamp(Z) \cup DataPos(Z))
IndexOf(g, p)   == CHOOSE j \in 1..Len(g) : g[j] = p
BuildMask(Z, g) == [i \in 1..Len(Z) |-> IndexOf(g, Pos(Z[i]))]

---------------------------------------------------------------------------
VARIABLES state,   \* "cleared" | "built"
          sample,  \* the sample the cache was built from (<<>> when cleared)
          grid,    \* increasing sequence of positions (<<>> when cleared)
          mask,    \* mask[i] = index in grid of the i-th data point
          arg,     \* the sample of the latest Predict since the last Clear (<<>> if none)
          hist
vars == <<state, sample, grid, mask, arg, hist>>

(* Projection of a cache onto what is compared with the real object (the harness applies the same
   projection to data_x / data_mask through the declared map value k -> float):
     built      : is there a cache
     first      : is the first node the lower limit of the integral
     increasing : is the grid strictly increasing
     hits       : does every mask entry point at a node that IS its data point
     data       : the data values met when walking the grid upwards (fixed nodes dropped)
     rank       : for each data point, the number of data nodes below the node its mask entry points at *)
IsData(p, Z) == p \in DataPos(Z)
Obs(st, g, m, Z) ==
  IF st = "cleared" THEN [built |-> FALSE, first |-> FALSE, increasing |-> FALSE, hits |-> FALSE,
                          data |-> <<>>, rank |-> <<>>]
  ELSE [built |-> TRUE,
        first |-> g[1] = Origin,
        increasing |-> \A j \in 1..(Len(g) - 1) : g[j] < g[j + 1],
        hits  |-> Len(m) = Len(Z) /\ \A i \in 1..Len(m) : m[i] \in 1..Len(g) /\ g[m[i]] = Pos(Z[i]),
        data  |-> LET d == SelectSeq(g, LAMBDA p : IsData(p, Z)) IN [j \in 1..Len(d) |-> d[j] \div 2],
        rank  |-> [i \in 1..Len(m) |-> Cardinality({j \in 1..(m[i] - 1) : IsData(g[j], Z)})]]

Init == /\ state = "cleared" /\ sample = <<>> /\ grid = <<>> /\ mask = <<>> /\ arg = <<>>
        /\ hist = <<>>

Predict(Z) ==
  /\ Len(hist) < MaxCalls
  /\ IF state = "cleared"
     THEN LET g == BuildGrid(Z) IN
            /\ state' = "built" /\ sample' = Z /\ grid' = g /\ mask' = BuildMask(Z, g)
     ELSE /\ (Protocol => Z = sample)
          /\ UNCHANGED <<state, sample, grid, mask>>          \* reuse, whatever Z is
  /\ arg' = Z
  /\ hist' = Append(hist, [op |-> "predict", z |-> Z, obs |-> Obs(state', grid', mask', Z)])

Clear ==
  /\ Len(hist) < MaxCalls
  /\ state' = "cleared" /\ sample' = <<>> /\ grid' = <<>> /\ mask' = <<>> /\ arg' = <<>>
  /\ hist' = Append(hist, [op |-> "clear", z |-> <<>>, obs |-> Obs("cleared", <<>>, <<>>, <<>>)])

Next == (\E Z \in Samples : Predict(Z)) \/ Clear
Spec == Init /\ [][Next]_vars

---------------------------------------------------------------------------
(* Invariants: what a caller of Predict(arg) may rely on *)
IsSample(Z) == Len(Z) \in 1..MaxLen /\ Range(Z) \subseteq Vals
TypeOK ==
  /\ state \in {"cleared", "built"}
  /\ (state = "cleared" => sample = <<>> /\ grid = <<>> /\ mask = <<>> /\ arg = <<>>)
  /\ (state = "built" => IsSample(sample) /\ IsSample(arg))
  /\ Len(hist) <= MaxCalls
GridIncreasing   == \A j \in 1..(Len(grid) - 1) : grid[j] < grid[j + 1]
GridStartsAtOne  == state = "built" => grid[1] = Origin
GridCoversData   == state = "built" => \A i \in 1..Len(arg) : \E j \in 1..Len(grid) : grid[j] = Pos(arg[i])
MaskCorrect      == state = "built" =>
                      /\ Len(mask) = Len(arg)
                      /\ \A i \in 1..Len(arg) : mask[i] \in 1..Len(grid) /\ grid[mask[i]] = Pos(arg[i])
(* duplicates share a node, different values have different nodes, order of nodes = order of values *)
MaskOrder        == state = "built" /\ Len(mask) = Len(arg) =>
                      \A i, k \in 1..Len(arg) : (arg[i] < arg[k]) <=> (mask[i] < mask[k])
BuiltFromSample  == state = "built" => grid = BuildGrid(sample) /\ mask = BuildMask(sample, grid)
(* rebuilt after being cleared: the first Predict after a Clear answers for its own sample *)
RebuiltAfterClear == [][state = "cleared" /\ state' = "built" =>
                          sample' = arg' /\ grid' = BuildGrid(arg') /\ mask' = BuildMask(arg', grid')]_vars
ClearClears       == [][Len(hist') > Len(hist) /\ hist'[Len(hist')].op = "clear" =>
                          state' = "cleared" /\ grid' = <<>> /\ mask' = <<>>]_vars

(* the projection carried by the history is the projection of the state *)
ObsIsCurrent == hist # <<>> => hist[Len(hist)].obs = Obs(state, grid, mask, arg)

Emit == Len(hist) = MaxCalls => PrintT(ToJson([calls |-> hist]))
=============================================================================
