----------------------------- MODULE SnapJudge -----------------------------
(* TLC decides Snap!Clauses for every observed return of the real snapping routines (C07, C05). *)
EXTENDS Naturals, Integers, Sequences, FiniteSets, TLC, Json, IOUtils
Cases == ndJsonDeserialize(IOEnv.CASES)
VARIABLE ji
JInit == ji = 1
JNext == ji < Len(Cases) /\ ji' = ji + 1
JSpec == JInit /\ [][JNext]_ji
S == INSTANCE Snap WITH KMax <- 3, k <- 1, small <- {}, curv <- <<>>, bad <- {}, stage <- "idle"
Verdict == LET c == Cases[ji] v == S!Clauses(c) IN v = {} \/ PrintT(ToJson([id |-> c.id, failed |-> v]))
Counted == (ji = Len(Cases)) => PrintT(ToJson([judged |-> ji]))
=============================================================================
