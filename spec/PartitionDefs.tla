--------------------------- MODULE PartitionDefs ---------------------------
(***************************************************************************)
(* Pure arithmetic part of Partition.tla, free of TLC-only modules, so     *)
(* that TLC (Partition.tla, bounded, bound to the code) and TLAPS          *)
(* (PartitionProofs.tla, all N, P) talk about the SAME definitions.        *)
(***************************************************************************)
EXTENDS Naturals, Integers

(* numpy.array_split: the first N % P sections get N \div P + 1 elements *)
SectionSize(n, r, p) == (n \div p) + (IF r < (n % p) THEN 1 ELSE 0)
Min(a, b) == IF a < b THEN a ELSE b
CeilDiv(a, b) == (a + b - 1) \div b
(* closed form of the lower end of section r (r = P gives the total); Partition.tla checks it against the
   running sum the code computes (cumsum) in every explored (N, P) *)
SplitLoC(n, r, p) == r * (n \div p) + Min(r, n % p)

(* Python slicing fcn_list[start:end] clips at N *)
FitLo(n, r, k) == Min(r * k, n)
FitHi(n, r, p, k) == IF r = p - 1 THEN n ELSE Min((r + 1) * k, n)

(* get_functions as a small state machine: one behaviour per (N, P) *)
VARIABLES N, P, nLs, pc
pvars == <<N, P, nLs, pc>>
Ceil    == pc = "ceil" /\ nLs' = CeilDiv(N, P) /\ pc' = "loop" /\ UNCHANGED <<N, P>>
Correct == pc = "loop" /\ nLs * (P - 1) > N /\ nLs' = nLs - 1 /\ UNCHANGED <<N, P, pc>>
Exit    == pc = "loop" /\ ~(nLs * (P - 1) > N) /\ pc' = "done" /\ UNCHANGED <<N, P, nLs>>
PNext == Ceil \/ Correct \/ Exit
(* unbounded initial condition (PartitionProofs) *)
PInitU == /\ N \in Nat /\ P \in Nat \ {0} /\ nLs = 0 /\ pc = "ceil"
PSpecU == PInitU /\ [][PNext]_pvars
NlsNonNeg  == nLs >= 0
=============================================================================
