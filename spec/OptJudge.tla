----------------------------- MODULE OptJudge -----------------------------
(***************************************************************************)
(* TLC judges runs of the real optimise_fun (C10) with the operators of    *)
(* Opt.tla.  One case = one run:                                           *)
(*   kind   "script": `minimize` was a stub answering from c.hist (niter   *)
(*                    vectors; the code consumes a prefix)                 *)
(*          "trace" : the real scipy minimize was recorded; c.hist are the *)
(*                    consumed vectors (projected to integers, P2)         *)
(*          "flags" : only the projected numeric facts are judged          *)
(*   flags  sequence of [name, ok]: numeric facts projected by the harness *)
(*          with stated tolerances (P3/P5): NLL = closed-form WLS minimum, *)
(*          L(returned parameters) = returned NLL, ...; a FALSE one is a   *)
(*          failed clause of that name                                     *)
(*   mode, niter, nconv, t05, t2   parameters of the loop (unit of values) *)
(*   obs = [value, n, it, br, signs, back, padok]                          *)
(*          value  returned -log L (same projection as hist)               *)
(*          n      iterations consumed (calls of minimize / branches)      *)
(*          it,br  the call whose x the returned parameters come from      *)
(*                 (0,0: parameters are zeros / not identified)            *)
(*          back   "id" | "pow10" | "none": how they were transformed      *)
(*          signs  signs of the returned parameters (pow10 only)           *)
(* Clauses named after what is demanded:                                   *)
(*   required by the property  returned_value_is_minimum, parameters_of_   *)
(*       winner, signs_of_winner, stops_no_later_than_niter, zero_padding  *)
(*   the loop's own rules (the decisions of the code on these values must  *)
(*   be the model's)  stops_when_converged, stops_after_50_inf,            *)
(*       stops_at_niter, stops_too_early                                   *)
(* Which of several positions attaining the minimum wins is left free.     *)
(***************************************************************************)
EXTENDS Naturals, Integers, Sequences, FiniteSets, TLC, Json, IOUtils
Cases == ndJsonDeserialize(IOEnv.CASES)
VARIABLE ji
JInit == ji = 1
JNext == ji < Len(Cases) /\ ji' = ji + 1
JSpec == JInit /\ [][JNext]_ji

O == INSTANCE Opt WITH Variant <- "code", Mode <- "lin", Niter <- 0, Nconv <- 0, InfMax <- 50, T05 <- 0, T2 <- 0,
                       Vals <- {}, Prefix <- <<>>, StepEmit <- FALSE, st <- 0, gh <- 0, hist <- <<>>

Clauses(c) ==
  LET P == [mode |-> c.mode, niter |-> c.niter, nconv |-> c.nconv, infmax |-> 50, t05 |-> c.t05, t2 |-> c.t2]
      h == c.hist
      o == c.obs
      m == O!Run(P, h)
      inrange == o.n \in 0..Len(h)
      stopname == IF m.why = "conv" THEN "stops_when_converged"
                  ELSE IF m.why = "inf" THEN "stops_after_50_inf"
                  ELSE IF m.why = "niter" THEN "stops_at_niter"
                  ELSE "stops_too_early"            \* the model is still running where the code stopped
      loop ==   (IF m.done /\ m.j = o.n THEN {} ELSE {stopname})
           \cup (IF o.n <= P.niter THEN {} ELSE {"stops_no_later_than_niter"})
           \cup (IF inrange /\ O!PostValue(P, h, o) THEN {} ELSE {"returned_value_is_minimum"})
           \cup (IF inrange /\ O!PostWinner(P, h, o) THEN {} ELSE {"parameters_of_winner"})
           \cup (IF inrange /\ O!PostWinner(P, h, o) /\ ~O!PostSigns(P, h, o) THEN {"signs_of_winner"} ELSE {})
           \cup (IF o.padok THEN {} ELSE {"zero_padding"})
  IN   (IF c.kind = "flags" THEN {} ELSE loop)
  \cup {c.flags[i].name : i \in {k \in 1..Len(c.flags) : ~c.flags[k].ok}}

Verdict == LET c == Cases[ji] v == Clauses(c) IN
             v = {} \/ PrintT(ToJson([id |-> c.id, failed |-> v]))
Counted == (ji = Len(Cases)) => PrintT(ToJson([judged |-> ji]))
=============================================================================
