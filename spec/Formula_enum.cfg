SPECIFICATION Spec
INVARIANT TokWellFormed
INVARIANT DepthBounded
INVARIANT ExponentsAgree
INVARIANT PlainOnlyWhereRenamed
INVARIANT GrammarRules
INVARIANT Emit
CHECK_DEADLOCK FALSE
