--------------------------- MODULE PartitionJudge ---------------------------
(* Judge of observed slices / per-rank row counts against Partition!Tiles (C14). *)
EXTENDS Naturals, Integers, Sequences, FiniteSets, TLC, Json, IOUtils
Pt == INSTANCE Partition WITH MaxN <- 0, MaxP <- 1, N <- 0, P <- 1, nLs <- 0, pc <- "idle"
Cases == ndJsonDeserialize(IOEnv.CASES)
VARIABLE ji
JInit == ji = 1
JNext == ji < Len(Cases) /\ ji' = ji + 1
JSpec == JInit /\ [][JNext]_ji
(* kind "slices": sl = <<<<lo,hi>>,...>> observed for (N, P) *)
(* kind "closed": beyond TLC's (MaxN, MaxP): ranks = <<<<r, lo, hi>>,...>> observed from the code for some ranks of (N, P); they must be
   the closed forms about which PartitionProofs.tla proves tiling for every N and P.  K is the exit value of the get_functions loop. *)
RECURSIVE Loop(_, _, _)
Loop(k, n, p) == IF k * (p - 1) > n THEN Loop(k - 1, n, p) ELSE k
K(n, p) == Loop(Pt!CeilDiv(n, p), n, p)
ClosedClauses(c) ==
  LET k == K(c.N, c.P) IN
  IF c.what = "split_idx"
  THEN (IF \E t \in 1..Len(c.ranks) : c.ranks[t][2] # Pt!SplitLoC(c.N, c.ranks[t][1], c.P) THEN {"lower_end_is_closed_form"} ELSE {})
       \cup (IF \E t \in 1..Len(c.ranks) : c.ranks[t][3] # Pt!SplitLoC(c.N, c.ranks[t][1] + 1, c.P) THEN {"upper_end_is_closed_form"} ELSE {})
  ELSE (IF \E t \in 1..Len(c.ranks) : c.ranks[t][2] # Pt!FitLo(c.N, c.ranks[t][1], k) THEN {"lower_end_is_closed_form"} ELSE {})
       \cup (IF \E t \in 1..Len(c.ranks) : c.ranks[t][3] # Pt!FitHi(c.N, c.ranks[t][1], c.P, k) THEN {"upper_end_is_closed_form"} ELSE {})
       \cup (IF k < 0 THEN {"chunk_length_nonnegative"} ELSE {})
Clauses(c) == CASE c.kind = "slices" -> Pt!TilesClauses(c.sl, c.N, c.P)
                [] c.kind = "closed" -> ClosedClauses(c)
                [] OTHER -> {"unknown_kind"}
Verdict == LET c == Cases[ji] v == Clauses(c) IN v = {} \/ PrintT(ToJson([id |-> c.id, failed |-> v]))
Counted == (ji = Len(Cases)) => PrintT(ToJson([judged |-> ji]))
=============================================================================
