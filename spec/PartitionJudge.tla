--------------------------- MODULE PartitionJudge ---------------------------
(* Judge of observed slices / per-rank row counts against Partition!Tiles (C14). *)
EXTENDS Naturals, Integers, Sequences, FiniteSets, TLC, Json, IOUtils
Pt == INSTANCE Partition WITH MaxN <- 0, MaxP <- 1, N <- 0, P <- 1, nLs <- 0, pc <- "idle"
Cases == ndJsonDeserialize(IOEnv.CASES)
VARIABLE ji
JInit == ji = 1
JNext == ji < Len(Cases) /\ ji' = ji + 1
JSpec == JInit /\ [][JNext]_ji
(* kind "slices": sl = <<<<lo,hi>>,...>> observed for (N, P) *)
Clauses(c) == CASE c.kind = "slices" -> Pt!TilesClauses(c.sl, c.N, c.P)
                [] OTHER -> {"unknown_kind"}
Verdict == LET c == Cases[ji] v == Clauses(c) IN v = {} \/ PrintT(ToJson([id |-> c.id, failed |-> v]))
Counted == (ji = Len(Cases)) => PrintT(ToJson([judged |-> ji]))
=============================================================================
