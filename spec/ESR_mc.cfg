SPECIFICATION Spec
INVARIANT TopNotBeaten
INVARIANT RowsReproducible
CHECK_DEADLOCK FALSE
