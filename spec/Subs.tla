-------------------------------- MODULE Subs --------------------------------
(***************************************************************************)
(* Exact rational model of parameter maps (DESIGN.md 3.6): the recorded    *)
(* substitutions, their composition as check_results / convert_params read *)
(* it, the Jacobian, the transfer of the Fisher matrix, and the            *)
(* cancellation of consecutive self-inverse substitutions.                 *)
(*                                                                         *)
(* A rational is <<num, den>> in lowest terms with den > 0 (TLC has 32-bit *)
(* integers: the alphabets keep every intermediate small).                 *)
(* A substitution template g is a record:                                  *)
(*   [t |-> "neg",   j]      {aj: -aj}          self-inverse               *)
(*   [t |-> "inv",   j]      {aj: 1/aj}         self-inverse               *)
(*   [t |-> "swap",  j]      {a0: a1, a1: a0}   self-inverse  (j = 0 or 1: *)
(*                            the two spellings {a0:a1,a1:a0} / {a1:a0,..})*)
(*   [t |-> "scale", j, c]   {aj: aj/c}                                    *)
(*   [t |-> "sq",    j]      {aj: aj**2}                                   *)
(*   [t |-> "lost",  j]      nan  (parameter count dropped)                *)
(* A chain is a sequence of templates in FILE order.  The parameter vector *)
(* of the function is p = (a0,..).subs(c[1]).subs(c[2])... evaluated at    *)
(* theta, i.e. the LAST template acts on theta first.                      *)
(***************************************************************************)
EXTENDS Naturals, Integers, Sequences, FiniteSets, TLC, Json

CONSTANTS KP,        \* number of parameters (1 or 2)
          Gens,      \* set of templates chains are built from
          MaxLen,    \* maximal chain length
          Thetas,    \* set of parameter vectors (sequences of KP rationals)
          Fishers    \* set of symmetric Fisher matrices, <<F00, F01, F11>> (KP=2) or <<F00>> (KP=1), rationals

---------------------------------------------------------------------------
Abs(n) == IF n < 0 THEN -n ELSE n
RECURSIVE Gcd(_, _)
Gcd(a, b) == IF b = 0 THEN a ELSE Gcd(b, a % b)
Norm(q) == IF q[2] = 0 THEN <<0, 0>>          \* <<0,0>> marks "undefined" (division by zero), absorbing
           ELSE LET s == IF q[2] < 0 THEN -1 ELSE 1
                    g == Gcd(Abs(q[1]), Abs(q[2]))
                IN <<(s * q[1]) \div g, (s * q[2]) \div g>>
Undef == <<0, 0>>
IsDef(q) == q[2] # 0
Q(n) == <<n, 1>>
RAdd(p, q) == IF ~IsDef(p) \/ ~IsDef(q) THEN Undef ELSE Norm(<<p[1] * q[2] + q[1] * p[2], p[2] * q[2]>>)
RMul(p, q) == IF ~IsDef(p) \/ ~IsDef(q) THEN Undef ELSE Norm(<<p[1] * q[1], p[2] * q[2]>>)
RNeg(p)    == IF ~IsDef(p) THEN Undef ELSE <<-p[1], p[2]>>
RInv(p)    == IF ~IsDef(p) \/ p[1] = 0 THEN Undef ELSE Norm(<<p[2], p[1]>>)
RSub(p, q) == RAdd(p, RNeg(q))
RDiv(p, q) == RMul(p, RInv(q))
RLt(p, q)  == p[1] * q[2] < q[1] * p[2]        \* both defined
RAbs(p)    == <<Abs(p[1]), p[2]>>
RPos(p)    == IsDef(p) /\ p[1] > 0

---------------------------------------------------------------------------
(* Vectors are pairs <<v0, v1>>, matrices 4-tuples <<m00, m01, m10, m11>> (tuples are evaluated eagerly by
   TLC; function constructors are not and make nested products exponential).  A one-parameter function is
   the case KP = 1: the second component is an inert dummy (theta1 = 1, identity block). *)
Idx == 0..(KP - 1)
V(v, i) == v[i + 1]
M(m, i, k) == m[2 * i + k + 1]
ApplyOne(g, th0) ==
  LET th == th0 IN
  CASE g.t = "neg"   -> IF g.j = 0 THEN <<RNeg(th[1]), th[2]>> ELSE <<th[1], RNeg(th[2])>>
    [] g.t = "inv"   -> IF g.j = 0 THEN <<RInv(th[1]), th[2]>> ELSE <<th[1], RInv(th[2])>>
    [] g.t = "swap"  -> <<th[2], th[1]>>
    [] g.t = "scale" -> IF g.j = 0 THEN <<RDiv(th[1], Q(g.c)), th[2]>> ELSE <<th[1], RDiv(th[2], Q(g.c))>>
    [] g.t = "sq"    -> IF g.j = 0 THEN <<RMul(th[1], th[1]), th[2]>> ELSE <<th[1], RMul(th[2], th[2])>>
    [] g.t = "lost"  -> <<Undef, Undef>>
Diag(j, d) == IF j = 0 THEN <<d, Q(0), Q(0), Q(1)>> ELSE <<Q(1), Q(0), Q(0), d>>
JacOne(g, th0) ==      \* d(ApplyOne(g, .))_i / d th_k  at th
  LET th == th0 IN
  CASE g.t = "neg"   -> Diag(g.j, Q(-1))
    [] g.t = "inv"   -> Diag(g.j, RNeg(RInv(RMul(th[g.j + 1], th[g.j + 1]))))
    [] g.t = "swap"  -> <<Q(0), Q(1), Q(1), Q(0)>>
    [] g.t = "scale" -> Diag(g.j, RInv(Q(g.c)))
    [] g.t = "sq"    -> Diag(g.j, RMul(Q(2), th[g.j + 1]))
    [] g.t = "lost"  -> <<Undef, Undef, Undef, Undef>>

MMul(A0, B0) == LET A == A0 B == B0 IN
   <<RAdd(RMul(A[1], B[1]), RMul(A[2], B[3])), RAdd(RMul(A[1], B[2]), RMul(A[2], B[4])),
     RAdd(RMul(A[3], B[1]), RMul(A[4], B[3])), RAdd(RMul(A[3], B[2]), RMul(A[4], B[4]))>>
MT(A0)   == LET A == A0 IN <<A[1], A[3], A[2], A[4]>>
MId      == <<Q(1), Q(0), Q(0), Q(1)>>
Det(A0)  == LET A == A0 IN RSub(RMul(A[1], A[4]), RMul(A[2], A[3]))
MInv(A0) == LET A == A0 d == RInv(Det(A0)) IN <<RMul(A[4], d), RMul(RNeg(A[2]), d), RMul(RNeg(A[3]), d), RMul(A[1], d)>>
MDef(A)  == \A k \in 1..4 : IsDef(A[k])

(* composition of a chain: the last template acts first *)
RECURSIVE Apply(_, _)
Apply(c, th) == IF c = <<>> THEN th ELSE LET inner == Apply(Tail(c), th) IN ApplyOne(Head(c), inner)
RECURSIVE Jac(_, _)
Jac(c, th) == IF c = <<>> THEN MId ELSE LET inner == Apply(Tail(c), th) IN MMul(JacOne(Head(c), inner), Jac(Tail(c), th))

Lost(c) == \E k \in 1..Len(c) : c[k].t = "lost"
VecDef(v) == IsDef(v[1]) /\ IsDef(v[2])
Regular(c, th) == ~Lost(c) /\ LET J == Jac(c, th) IN VecDef(Apply(c, th)) /\ MDef(J) /\ RPos(RAbs(Det(J)))

(* Fisher matrix <<F00, F01, F11>>; KP = 1: <<F00>> with an identity block for the dummy *)
FisherM(F) == IF KP = 1 THEN <<F[1], Q(0), Q(0), Q(1)>> ELSE <<F[1], F[2], F[2], F[3]>>
(* F' = J^-T F J^-1 ; the code keeps its diagonal *)
Transfer(c, th, F) ==
  LET Ji == MInv(Jac(c, th))
      Fn == MMul(MT(Ji), MMul(FisherM(F), Ji))
  IN [p |-> Apply(c, th), fd |-> <<Fn[1], Fn[4]>>]

(* zero snapping threshold:  |p_i| sqrt(fd_i / 12) < 1   <=>   p_i^2 fd_i < 12   (exact) *)
SmallAt(p, fd, i) == RLt(RMul(RMul(p[i + 1], p[i + 1]), fd[i + 1]), Q(12))
TieAt(p, fd, i)   == RMul(RMul(p[i + 1], p[i + 1]), fd[i + 1]) = Q(12)

---------------------------------------------------------------------------
(* cancellation of consecutive self-inverse substitutions: a transcription of simplify_inv_subs
   (simplifier.py:1063-1097).  Equality of templates is equality of their TEXT, so the two spellings of a
   swap are different strings. *)
ThetaF(th) == IF KP = 1 THEN <<th[1], Q(1)>> ELSE <<th[1], th[2]>>
SelfInverse(g) == g.t \in {"neg", "inv", "swap"}
RECURSIVE CancelFrom(_, _)
CancelFrom(c, i) ==    \* indices deleted, scanning from position i (1-based)
  IF i >= Len(c) THEN {}
  ELSE IF SelfInverse(c[i]) /\ c[i + 1] = c[i] THEN {i, i + 1} \cup CancelFrom(c, i + 2)
  ELSE CancelFrom(c, i + 1)
RECURSIVE Keep(_, _, _)
Keep(c, del, i) == IF i > Len(c) THEN <<>> ELSE (IF i \in del THEN <<>> ELSE <<c[i]>>) \o Keep(c, del, i + 1)
Cancel(c) == Keep(c, CancelFrom(c, 1), 1)

(* the property (C17): cancelling never changes the composition *)
SameMap(c, d) == \A th \in Thetas : Apply(c, ThetaF(th)) = Apply(d, ThetaF(th))

---------------------------------------------------------------------------
(* chain builder: one behaviour per chain *)
VARIABLE chain
Init == chain = <<>>
Extend == Len(chain) < MaxLen /\ \E g \in Gens : chain' = Append(chain, g)
Spec == Init /\ [][Extend]_chain

CancelPreserves == SameMap(Cancel(chain), chain)
(* what SubsProofs.tla (TLAPS: chains of any length) assumes of the composition, checked here for the concrete one: the map of a
   chain is the map of its first part after the map of the rest (a monoid homomorphism into the maps under composition) *)
ApplyHom == \A k \in 0..Len(chain) : \A th \in Thetas :
              Apply(chain, ThetaF(th)) = Apply(SubSeq(chain, 1, k), Apply(SubSeq(chain, k + 1, Len(chain)), ThetaF(th)))
InvolutionsSquare == \A g \in Gens : SelfInverse(g) => \A th \in Thetas :
                        VecDef(ApplyOne(g, ThetaF(th))) => Apply(<<g, g>>, ThetaF(th)) = ThetaF(th)
(* chain rule sanity: transferring along c then along the reversed chain of the same involutions is the identity *)
RECURSIVE Rev(_)
Rev(s) == IF s = <<>> THEN <<>> ELSE Append(Rev(Tail(s)), Head(s))
AllInvol(c) == \A k \in 1..Len(c) : SelfInverse(c[k])
RoundTrip == AllInvol(chain) => \A th \in Thetas, F \in Fishers :
               Regular(chain \o Rev(chain), ThetaF(th)) =>
                  LET tr == Transfer(chain \o Rev(chain), ThetaF(th), F) IN
                     /\ tr.p = ThetaF(th)
                     /\ \A i \in Idx : V(tr.fd, i) = M(FisherM(F), i, i)
(* a lost chain is never regular; regular maps keep every value defined *)
LostNeverRegular == Lost(chain) => \A th \in Thetas : ~Regular(chain, ThetaF(th))

(* squares make rationals explode (32-bit integers): at most one per chain in the case space *)
SqAtMostOnce == Cardinality({k \in 1..Len(chain) : chain[k].t = "sq"}) <= 1
EmitChain == PrintT(ToJson([chain |-> chain, cancelled |-> Cancel(chain)]))
(* C05: the model's exact answer for every (chain, theta, F) *)
Case(th, F) ==
  LET t == ThetaF(th)
      reg == Regular(chain, t)
      tr == Transfer(chain, t, F)
  IN [chain |-> chain, theta |-> th, F |-> F, lost |-> Lost(chain), regular |-> reg,
      p |-> IF reg THEN SubSeq(tr.p, 1, KP) ELSE <<>>,
      fd |-> IF reg THEN SubSeq(tr.fd, 1, KP) ELSE <<>>,
      fdpos |-> reg /\ \A i \in Idx : RPos(V(tr.fd, i)),
      small |-> IF reg /\ (\A i \in Idx : RPos(V(tr.fd, i))) THEN {i \in 1..KP : SmallAt(tr.p, tr.fd, i - 1)} ELSE {},
      tie |-> IF reg /\ (\A i \in Idx : RPos(V(tr.fd, i))) THEN {i \in 1..KP : TieAt(tr.p, tr.fd, i - 1)} ELSE {}]
EmitCases == \A th \in Thetas, F \in Fishers : PrintT(ToJson(Case(th, F)))
=============================================================================
