-------------------------------- MODULE Expr --------------------------------
(***************************************************************************)
(* Real-valued expressions "of the kind ESR produces" (property C12):      *)
(* the term grammar, the syntactic predicate "non-negative by              *)
(* construction", the round-trip law over P1 classes, and a state machine  *)
(* that builds every term of the grammar up to a depth bound (exhaustive   *)
(* in model-checking mode, random deeper terms with -simulate).            *)
(*                                                                         *)
(* A term is a record [o |-> token, a |-> <<sub-terms>>]:                  *)
(*   leaves   x | a0, a1, .. | a number token "2", "-1", "1/2", "-3/2"     *)
(*   unary    Neg Abs exp sin          (any argument)                      *)
(*            log sqrt                 (argument non-negative by constr.)  *)
(*   binary   Add Mul Div              (Div = quotient)                    *)
(*            Pow base exponent-leaf : integer exponent      -> any base   *)
(*                                     non-integer rational                *)
(*                                     or a parameter        -> NonNeg base*)
(*                                                                         *)
(* Why the restriction: both symbol tables of ESR read pow(a,b) as         *)
(* Abs(a)**b, and the fitting table reads sqrt / log as sqrt(Abs(.)) /     *)
(* log(Abs(.)); "printing and reading back gives the same function" can    *)
(* therefore be demanded only where those arguments are >= 0 whatever the  *)
(* parameters are -- which is also the only way ESR's own operators        *)
(* (pow, sqrt_abs, log_abs) create such nodes.                             *)
(***************************************************************************)
EXTENDS Naturals, Integers, Sequences, FiniteSets, TLC, Json

CONSTANTS Params,      \* parameter leaves of the generator, e.g. {"a0", "a1"}
          NumLeaves,   \* number tokens usable as leaves, e.g. {"2", "-3/2"}
          IntExps,     \* integer exponent tokens, e.g. {"2", "3", "-1", "-2"}
          RealExps,    \* non-integer exponent tokens: rationals and/or a parameter, e.g. {"1/2", "-1/2", "a0"}
          MaxDepth,    \* depth bound of the generated terms
          SibDepth     \* depth bound of the sibling attached by one binary step

---------------------------------------------------------------------------
(* number tokens: reduced fractions n/d, printed as ESR's leaves are *)
RECURSIVE Gcd(_, _)
Gcd(p, q) == IF q = 0 THEN p ELSE Gcd(q, p % q)
AbsI(z) == IF z < 0 THEN -z ELSE z
Rats == {q \in (-12..12) \X (1..6) : Gcd(AbsI(q[1]), q[2]) = 1}
Tok(q) == IF q[2] = 1 THEN ToString(q[1]) ELSE ToString(q[1]) \o "/" \o ToString(q[2])
NumToks == {Tok(q) : q \in Rats}
ValOf == [tk \in NumToks |-> CHOOSE q \in Rats : Tok(q) = tk]     \* token -> <<num, den>>
ParamToks == {"a" \o ToString(j) : j \in 0..9}

IsNum(tk)   == tk \in NumToks
IsParam(tk) == tk \in ParamToks
IsInt(tk)   == IsNum(tk) /\ ValOf[tk][2] = 1
IsEven(tk)  == IsInt(tk) /\ ValOf[tk][1] % 2 = 0

UnaryFree == {"Neg", "Abs", "exp", "sin"}
UnaryNN   == {"log", "sqrt"}
Binary    == {"Add", "Mul", "Div"}

Leaf(tk)       == [o |-> tk, a |-> <<>>]
Un(op, e)      == [o |-> op, a |-> <<e>>]
Bin(op, l, r)  == [o |-> op, a |-> <<l, r>>]

---------------------------------------------------------------------------
(* shape: every node is a known token with the right number of sub-terms *)
RECURSIVE WellFormed(_)
WellFormed(e) ==
  CASE Len(e.a) = 0 -> (e.o = "x" \/ IsParam(e.o) \/ IsNum(e.o))
    [] Len(e.a) = 1 -> (e.o \in (UnaryFree \cup UnaryNN)) /\ WellFormed(e.a[1])
    [] Len(e.a) = 2 -> \/ ((e.o \in Binary) /\ WellFormed(e.a[1]) /\ WellFormed(e.a[2]))
                       \/ ((e.o = "Pow") /\ WellFormed(e.a[1]) /\ Len(e.a[2].a) = 0
                             /\ (IsNum(e.a[2].o) \/ IsParam(e.a[2].o)))
    [] OTHER -> FALSE

(* the exponent leaf of a Pow node does not count as a level *)
RECURSIVE Depth(_)
Max(p, q) == IF p > q THEN p ELSE q
Depth(e) ==
  CASE Len(e.a) = 0 -> 0
    [] Len(e.a) = 1 -> 1 + Depth(e.a[1])
    [] e.o = "Pow"  -> 1 + Depth(e.a[1])
    [] OTHER        -> 1 + Max(Depth(e.a[1]), Depth(e.a[2]))

(* NonNeg(e): e >= 0 at every x > 0 and every real parameter vector where it is defined, by the
   form of e alone (no algebra).  Only meaningful for well-formed, in-grammar terms. *)
RECURSIVE NonNeg(_)
NonNeg(e) ==
  CASE Len(e.a) = 0 -> (e.o = "x" \/ (IsNum(e.o) /\ ValOf[e.o][1] >= 0))
    [] Len(e.a) = 1 -> e.o \in {"Abs", "exp", "sqrt"}
    [] e.o = "Pow"  -> IF IsInt(e.a[2].o) THEN (IsEven(e.a[2].o) \/ NonNeg(e.a[1]))
                       ELSE TRUE             \* non-integer power of a NonNeg base
    [] OTHER        -> NonNeg(e.a[1]) /\ NonNeg(e.a[2])       \* Add, Mul, Div

(* the grammar of property C12 *)
RECURSIVE InGrammar(_)
InGrammar(e) ==
  /\ WellFormed(e)
  /\ CASE Len(e.a) = 0 -> TRUE
       [] Len(e.a) = 1 -> InGrammar(e.a[1]) /\ ((e.o \in UnaryNN) => NonNeg(e.a[1]))
       [] e.o = "Pow"  -> /\ InGrammar(e.a[1])
                          /\ (IsInt(e.a[2].o) => ValOf[e.a[2].o][1] # 0)
                          /\ (~IsInt(e.a[2].o) => NonNeg(e.a[1]))
       [] OTHER        -> InGrammar(e.a[1]) /\ InGrammar(e.a[2])

---------------------------------------------------------------------------
(* The law.  cls* are P1 classes (integers; UNDECIDED when fewer than 3 generic points are finite):
   clsOrig of the expression itself, clsRead of parse(print(expression)).                         *)
UNDECIDED == -1
Decided(p, q) == p # UNDECIDED /\ q # UNDECIDED
ReadsBack(e, clsOrig, clsRead) == (InGrammar(e) /\ Decided(clsOrig, clsRead)) => clsRead = clsOrig
(* printing is a function of the expression: all strings obtained for one expression are one string *)
PrintFunctional(sids) == \A i, j \in 1..Len(sids) : sids[i] = sids[j]

---------------------------------------------------------------------------
(* Generator: one constructor per step around the current term. *)
LeafToks == {"x"} \cup Params \cup NumLeaves

Grow(e, sibs) ==
       {Un(op, e) : op \in UnaryFree}
  \cup {Bin("Pow", e, Leaf(k)) : k \in IntExps}
  \cup (IF NonNeg(e) THEN {Un(op, e) : op \in UnaryNN} \cup {Bin("Pow", e, Leaf(k)) : k \in RealExps}
        ELSE {})
  \cup {Bin(op, e, s) : op \in Binary, s \in sibs}
  \cup {Bin(op, s, e) : op \in Binary, s \in sibs}

RECURSIVE Terms(_)
Terms(k) == IF k = 0 THEN {Leaf(l) : l \in LeafToks}
            ELSE LET prev == Terms(k - 1) IN prev \cup UNION {Grow(e, prev) : e \in prev}
Sib == Terms(SibDepth)

VARIABLES t, d
vars == <<t, d>>
Init == \E l \in LeafToks : t = Leaf(l) /\ d = 0
Next == /\ d < MaxDepth
        /\ \E u \in Grow(t, Sib) : Depth(u) <= MaxDepth /\ t' = u /\ d' = Depth(u)
Spec == Init /\ [][Next]_vars

(* the same step with the constructor and the sibling drawn at random (TLC's seeded generator):
   one successor per state, used with -simulate to reach terms deeper than the exhaustive bound *)
SimNext == /\ d < MaxDepth
           /\ \E s \in {RandomElement(Sib)} :        \* (a LET-bound RandomElement is drawn again at every use)
                 t' = RandomElement({v \in Grow(t, {s}) : Depth(v) <= MaxDepth})
           /\ d' = Depth(t')
SimSpec == Init /\ [][SimNext]_vars

(* Nested sums in bracket-needing positions (depth 4), a family the depth-2 enumeration cannot reach and random growth rarely hits:
     Outer[ Add(Inner, s) ]  and  Outer[ Add(s, Inner) ]
   Inner = a sum used as base / numerator / factor:  (p + q)^k,  (p + q) / r,  (p + q) * r,  r / (p + q)
   s     = any term of depth <= SibDepth;   Outer = x * . , . * a0 , x / . , . / x , .^2 , .^-1 , -(.) , sin(.) *)
NestLeaves == {"x"} \cup Params
Inner(f, p, q, r, k) == LET sum == Bin("Add", Leaf(p), Leaf(q)) IN
   CASE f = 1 -> Bin("Pow", sum, Leaf(k)) [] f = 2 -> Bin("Div", sum, Leaf(r)) [] f = 3 -> Bin("Mul", sum, Leaf(r)) [] f = 4 -> Bin("Div", Leaf(r), sum)
Outer(o, e) ==
   CASE o = 1 -> Bin("Mul", Leaf("x"), e) [] o = 2 -> Bin("Mul", e, Leaf("a0")) [] o = 3 -> Bin("Div", Leaf("x"), e) [] o = 4 -> Bin("Div", e, Leaf("x"))
     [] o = 5 -> Bin("Pow", e, Leaf("2")) [] o = 6 -> Bin("Pow", e, Leaf("-1")) [] o = 7 -> Un("Neg", e) [] o = 8 -> Un("sin", e)
NestInit == \E o \in 1..8, f \in 1..4, p \in NestLeaves, q \in NestLeaves, r \in NestLeaves, k \in IntExps, s \in Sib, left \in BOOLEAN :
              /\ (f # 1 => k = CHOOSE k0 \in IntExps : TRUE) /\ (f = 1 => r = "x") /\ p # q
              /\ t = Outer(o, IF left THEN Bin("Add", Inner(f, p, q, r, k), s) ELSE Bin("Add", s, Inner(f, p, q, r, k)))
              /\ d = Depth(t)
NestSpec == NestInit /\ [][UNCHANGED vars]_vars

(* invariants of the generator *)
OnlyGrammar  == InGrammar(t)
DepthTracked == d = Depth(t) /\ d <= MaxDepth
(* every term reached is handed to the harness *)
Emit == PrintT(ToJson([t |-> t, d |-> d, nn |-> NonNeg(t)]))
=============================================================================
