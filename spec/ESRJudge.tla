------------------------------ MODULE ESRJudge ------------------------------
(***************************************************************************)
(* Judge of one end-to-end pipeline run (C04) and of single-tree fits (C20)*)
(* Real numbers are projected to order classes (P2): all values of a case  *)
(* are sorted and merged within the stated tolerance; `cls` fields are the *)
(* class indices, INF = 100000, NAN = -1.                                  *)
(*  "row"    : one row of final_n.dat: sumOK (DL = nll + plen + tlen),     *)
(*             nllOK (likelihood of the reported function at the reported  *)
(*             parameters equals the reported -log L)                      *)
(*  "tree"   : a library tree with a finite independent description length *)
(*             interval [lo, hi]; top = class of the top row's DL          *)
(*  "single" : single-tree API vs pipeline row vs closed form              *)
(***************************************************************************)
EXTENDS Naturals, Integers, Sequences, FiniteSets, TLC, Json, IOUtils
Cases == ndJsonDeserialize(IOEnv.CASES)
VARIABLE ji
JInit == ji = 1
JNext == ji < Len(Cases) /\ ji' = ji + 1
JSpec == JInit /\ [][JNext]_ji
NAN == -1
RowClauses(c) == (IF ~c.sumOK THEN {"dl_is_sum_of_three_terms"} ELSE {})
            \cup (IF ~c.nllOK THEN {"likelihood_at_reported_parameters"} ELSE {})
TreeClauses(c) == IF c.top = NAN \/ c.top > c.hi THEN {"top_not_beaten_by_enumerated_tree"} ELSE {}
SingleClauses(c) ==
     (IF ~c.sumOK THEN {"dl_is_exact_sum"} ELSE {})
  \cup (IF c.hasPipe /\ c.nllSingle # c.nllPipe THEN {"nll_agrees_with_pipeline"} ELSE {})
  \cup (IF c.hasPipe /\ ~c.tie /\ c.dlSingle # c.dlPipe THEN {"dl_agrees_with_pipeline"} ELSE {})
  \cup (IF c.nllSingle # c.nllClosed THEN {"nll_agrees_with_closed_form"} ELSE {})
  \cup (IF ~c.tie /\ c.dlSingle # c.dlClosed THEN {"dl_agrees_with_closed_form"} ELSE {})
  \cup (IF ~c.paramsOK THEN {"likelihood_at_returned_parameters"} ELSE {})
Clauses(c) == CASE c.kind = "row" -> RowClauses(c)
                [] c.kind = "tree" -> TreeClauses(c)
                [] c.kind = "single" -> SingleClauses(c)
                [] OTHER -> {"unknown_kind"}
Verdict == LET c == Cases[ji] v == Clauses(c) IN v = {} \/ PrintT(ToJson([id |-> c.id, failed |-> v]))
Counted == (ji = Len(Cases)) => PrintT(ToJson([judged |-> ji]))
=============================================================================
