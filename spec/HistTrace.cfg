SPECIFICATION TSpec
INVARIANT ReadsOnlyOwnOrDeclared
INVARIANT AppendsOnlyOwn
CONSTRAINT Consumed
POSTCONDITION Accepted
CHECK_DEADLOCK FALSE
