HOOK_COMMITS = ["5891a36"]
NOTES = "See DESIGN.md. Entry point ./check <id> --tier quick|thorough; exit 0/1/2 (2 = machinery failure). Known findings: known_findings.json."

chk("C01", "model_checking",
    "Trees.tla transcribes the placement machine of check_tree and the shape filter as actions and states the declarative definition of a valid prefix arity string; TLC checks Success<=>Valid, soundness of failed-prefix pruning and of the pre-filter for every candidate in {0,1,2}^n (n<=7 quick, n<=9 thorough) and enumerates every labelled tree of the explored (basis, n). Every end state is replayed into the real check_tree / get_allowed_shapes / generate_equations; the code's answers are judged by TLC (TreesJudge.tla) and the tree file is compared line by line (order, multiplicity) with the model's emission order.",
    "Exhaustive inside the stated bounds, nothing sampled. Trusted: TLC, the harness' reading of the tree file format, the MPI stand-in with one rank.",
    "TLA+ model of check_tree/get_allowed_shapes/shape_to_functions; TLC exhaustive; state-graph replay into the code and TLC-judged observations", "5 C01")

chk("C02", "model_checking",
    "Trees!Infix is the exact token string node_to_string must produce and is compared, for every labelled tree TLC enumerates, with the real function; every line of every generated library becomes one event of a trace judged by Library.tla (alignment of tree and function lists, well-formedness of the tree, and the law class(tree) = class(string read by the generation table) = class(string read by Likelihood.run_sympify)).",
    "Equality of real functions is decided by projection P1 (24 generic points, 50-digit re-evaluation on mismatch) carried in the events; TLA+ holds the law, alignment and the raw string, not real arithmetic. Exhaustive over the libraries listed in the evidence.",
    "TLA+ trace specification of the generated library judged by TLC; spec-enumerated trees replayed into node_to_string", "5 C02")
chk("C03", "model_checking",
    "Every function line and unique entry of every generated library (shipped bases and verif_* sub-bases through the ESR_VERIF hook) is an event of a trace judged by Library.tla: exactly one unique per function with an in-range match, uniques pairwise distinct with contiguous parameters, per-function files aligned, recorded map exact (function(x; p(theta)) = unique(x; theta) with an independent composer of the file's chain), unrecoverable only with strictly fewer parameters and the same family of curves. Binding self-test: corrupted traces must be rejected.",
    "P1 decides pointwise equality; family equality of unrecoverable rows by multi-start least squares at 1e-6. Bounded by the libraries generated (listed in the evidence).",
    "TLA+ trace validation of the library files (Library.tla) with P1 classes and independently composed parameter maps", "5 C03")
chk("C08", "model_checking",
    "Trees!Code gives the integers (k, nsym, constants) of a label list; TLC enumerates every well-formed label list up to 5 labels over a vocabulary with integers and several parameters and both aifeyn_complexity and tree_to_aifeyn are compared with the closed form evaluated from those integers; for generated libraries Library.tla checks line alignment and returns the model's code for every line, compared with aifeyn_n.txt.",
    "P3: closed form evaluated in double precision from exact integers (1e-9). Exhaustive in the vocabulary and over every line of the listed libraries.",
    "TLA+ definition of the tree code, TLC-enumerated label lists replayed into both APIs; library trace judged by TLC", "5 C08")

chk("C14", "model_checking",
    "Partition.tla states split_idx (numpy.array_split) and get_functions (ceil, the 'many cores' correction loop as explicit steps, last rank takes the rest) and TLC proves Tiles for every (N,P) in the bounds; the real functions are run for every (N,P,r) and their slices judged by PartitionJudge!Tiles. FS.tla models the constructor's isdir/mkdir steps per rank and the rank-0-creates/barrier/write protocol; every interleaving TLC enumerates is replayed on real processes by the stand-in's scheduler and the executed steps must be the requested behaviour. The four fitting stages run on P ranks (incl. P > N; free-running and with rank 0 slowest), their coordinator traces are validated against CollTrace.tla and their outputs are byte-compared with the 1-rank run.",
    "Exhaustive for (N,P) <= (24,12) quick / (40,20) thorough and for all start-up interleavings of 2 (quick) / 3 (thorough) ranks; stage runs are a finite list of rank counts. Trusted: the stand-in's scheduler, per-function re-seeding of numpy.random.",
    "TLA+ models Partition/FS/Coll; TLC-enumerated schedules replayed on real processes; slices and coordinator traces judged by TLC", "5 C14")

chk("C13", "model_checking",
    "Coll.tla gives the semantics of the collectives and TLC checks Matched / Confluent / NoOrphan over all posting orders (and that a crash produces an orphan); generation is run on P ranks (incl. more ranks than functions and than functions with a recorded map) free-running, under seeded serialised schedules chosen by the coordinator and with rank 0 slowest; each coordinator trace is validated against CollTrace.tla (same program on all ranks, agreement on every collective, nobody blocked behind an exited rank, all exit 0), tree / function / tree-code files are byte-compared with the 1-rank run and the P-rank library is judged by Library.tla (C03 clauses).",
    "Model exhaustive for 3 ranks and programs of <= 3 collectives; implementation runs are a finite list of (library, P, schedule). Trusted: the stand-in, P1.",
    "TLA+ model of SPMD collectives; trace validation of coordinator traces; schedule exploration on real processes; Library.tla on P-rank libraries", "5 C13")
