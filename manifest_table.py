HOOK_COMMITS = ["5891a36"]
NOTES = "See DESIGN.md. Entry point ./check <id> --tier quick|thorough; exit 0/1/2 (2 = machinery failure). Known findings: known_findings.json."

chk("C01", "model_checking",
    "Trees.tla transcribes the placement machine of check_tree and the shape filter as actions and states the declarative definition of a valid prefix arity string; TLC checks Success<=>Valid, soundness of failed-prefix pruning and of the pre-filter for every candidate in {0,1,2}^n (n<=7 quick, n<=9 thorough) and enumerates every labelled tree of the explored (basis, n). Every end state is replayed into the real check_tree / get_allowed_shapes / generate_equations; the code's answers are judged by TLC (TreesJudge.tla) and the tree file is compared line by line (order, multiplicity) with the model's emission order.",
    "Exhaustive inside the stated bounds, nothing sampled. Trusted: TLC, the harness' reading of the tree file format, the MPI stand-in with one rank.",
    "TLA+ model of check_tree/get_allowed_shapes/shape_to_functions; TLC exhaustive; state-graph replay into the code and TLC-judged observations", "5 C01")
