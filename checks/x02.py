"""X02 (not a listed property; spec growth, DESIGN.md 12.4): the reader of the final tables, esr/plotting/plot.py:pareto_plot,
judged by Pareto.tla.  Tables hold multiples of 1/2 (so every difference is exact in doubles and enters TLA+ as an integer)."""
import itertools, math, os, random
os.environ.setdefault("MPLBACKEND", "Agg")
from harness import scratch, tlc, evidence

PID = "X02"
NAN, INF, BAD = 99999, 100000, 77777
nan, inf = float("nan"), float("inf")

# small tables (rows of (DL, logL)): empty, plain, NaN / INF description lengths, minimum not in the first row
TABLES = [
    [],
    [(1.0, 5.0)],
    [(nan, 3.0)],
    [(inf, 2.0)],
    [(4.0, nan), (1.5, 7.0)],
    [(nan, nan)],
    [(6.5, 0.5), (inf, -2.0), (3.0, 4.0)],
]


def proj(v):
    """double -> integer of the model (2*v), markers for NaN / +inf, BAD for anything the tables cannot produce"""
    if v != v:
        return NAN
    if v == inf:
        return INF
    d = 2.0 * v
    if not math.isfinite(d) or d != int(d) or abs(d) > 50000:
        return BAD
    return int(d)


def write_dir(d, files):
    os.makedirs(d)
    for comp, rows in files:
        with open(os.path.join(d, "final_%d.dat" % comp), "w") as f:
            for i, (dl, ll) in enumerate(rows):
                f.write("%d;f%d(x);%r;0.5;%r;1.0;2.0;0.0;0.0\n" % (i, i, dl, ll))


def run(tier, replay=None):
    r = evidence.Run(PID, tier, "model_checking")
    s = scratch.make()
    scratch.activate(s)
    import warnings
    import matplotlib
    matplotlib.use("Agg")
    import matplotlib.axes
    import matplotlib.pyplot as plt
    from esr.plotting import plot as esrplot
    rec = {}
    orig_plot, orig_ticks = matplotlib.axes.Axes.plot, matplotlib.axes.Axes.set_xticks

    def plot_spy(self, *a, **k):
        rec["curves"].append((list(a[0]), list(a[1])))
        return orig_plot(self, *a, **k)

    def ticks_spy(self, t, *a, **k):
        rec["ticks"] = list(t)
        return orig_ticks(self, t, *a, **k)
    matplotlib.axes.Axes.plot, matplotlib.axes.Axes.set_xticks = plot_spy, ticks_spy

    rng = random.Random(evidence.seed())
    inputs = []
    compsets = [c for k in (1, 2, 3) for c in itertools.combinations((2, 3, 10), k)]
    for cs in compsets:
        for tabs in itertools.product(range(len(TABLES)), repeat=len(cs)):
            inputs.append([(c, TABLES[t]) for c, t in zip(cs, tabs)])
    nrand = 40 if tier == "quick" else 400
    for _ in range(nrand):
        cs = sorted(rng.sample(range(1, 13), rng.randint(1, 6)))
        files = []
        for c in cs:
            rows = []
            for _ in range(rng.randint(0, 5)):
                dl = rng.choice([nan, inf] + [rng.randint(-40, 40) / 2.0] * 6)
                ll = rng.choice([nan] + [rng.randint(-40, 40) / 2.0] * 7)
                rows.append((dl, ll))
            files.append((c, rows))
        inputs.append(files)
    cases = []
    modes = {"both": (True, True), "dl": (True, False), "ll": (False, True)}
    for k, files in enumerate(inputs):
        d = os.path.join(s, "x02_%d" % k)
        write_dir(d, files)
        for mode in (("both", "dl", "ll") if (k % 3 == 0 or tier == "thorough") else ("both",)):
            rec.clear()
            rec.update(curves=[], ticks=[])
            name = "pareto_%s.png" % mode
            with warnings.catch_warnings():
                warnings.simplefilter("ignore")
                try:
                    esrplot.pareto_plot(d, name, do_DL=modes[mode][0], do_logL=modes[mode][1])
                except Exception as e:
                    r.violation("raises:%s" % type(e).__name__, "pareto_plot raised %r on tables %r (mode %s)" % (e, files, mode), {"files": repr(files), "mode": mode})
                    plt.close("all")
                    continue
            plt.close("all")
            cases.append({"id": len(cases), "mode": mode,
                          "files": [{"comp": c, "dl": [proj(a) for a, _ in rows], "ll": [proj(b) for _, b in rows]} for c, rows in files],
                          "curves": [{"x": [int(v) for v in x], "y": [proj(float(v)) for v in y]} for x, y in rec["curves"]],
                          "ticks": [int(v) for v in rec["ticks"]], "saved": os.path.exists(os.path.join(d, name)), "_files": repr(files)})
    matplotlib.axes.Axes.plot, matplotlib.axes.Axes.set_xticks = orig_plot, orig_ticks
    jres, failed = tlc.judge("Pareto", [{k: v for k, v in c.items() if not k.startswith("_")} for c in cases])
    r.add_tlc(jres, "pareto_judge")
    for i, cl in failed.items():
        c = cases[i]
        r.violation("pareto:%s" % ",".join(cl), "pareto_plot violates %s on tables %s (mode %s): curves %s ticks %s" % (cl, c["_files"], c["mode"], c["curves"], c["ticks"]),
                    {k: v for k, v in c.items()})
    nontriv = sum(1 for c in cases if any(v in (NAN, INF) for f in c["files"] for v in f["dl"]) or any(f["comp"] >= 10 for f in c["files"]))
    r.add("pareto", evaluations=len(cases), nontrivial=nontriv, traces=len(cases))
    for c in cases[:: max(1, len(cases) // 4)][:4]:
        r.sample({"tables": c["_files"], "mode": c["mode"], "curves": c["curves"]})
    r.cov["rule"] = ("every assignment of %d small tables (empty, NaN / INF description lengths, minimum not first) to every non-empty subset of complexities {2,3,10} "
                     "plus %d random directories (1-6 complexities <= 12, 0-5 rows); non-trivial = a NaN / INF description length or a two-digit complexity (file names sort lexicographically)" % (len(TABLES), nrand))
    return r.finish(exhaustive=False)
