"""C14 Work partitioning tiles the function list; fitting stages complete on any ranks."""
import contextlib, io, os, shutil, types, filecmp
from harness import scratch, tlc, evidence, coord, lib, data
from checks import common

PID = "C14"
FIT_OPTS = {"fit": {"tmax": 120, "Niter_params": [12, 12], "Nconv_params": [3, 2]}, "fisher": {"tmax": 120}, "match": {"tmax": 120}}
STAGE_FILES = ["negloglike_comp%d.dat", "codelen_comp%d_deriv.dat", "derivs_comp%d.dat", "codelen_matches_comp%d.dat", "final_%d.dat"]


ONE = [["a"], ["inv"], ["*"]]          # complexity 1: the single function a0


class _Comm:
    def Barrier(self):
        pass


def _partition(run, s, tier):
    maxN, maxP = (24, 12) if tier == "quick" else (40, 20)
    res = tlc.must(tlc.run("Partition", "Partition.cfg", constants={"MaxN": str(maxN), "MaxP": str(maxP)}, workers=4), "Partition")
    run.add_tlc(res, "partition_model")
    for v in res["violated"]:
        run.violation("model:" + v, "Partition.tla invariant %s violated: the slicing design does not tile" % v)
    import numpy as np
    import esr.generation.utils as utils
    import esr.fitting.test_all as ta
    fn_dir = os.path.join(s, "c14_fn")
    like = types.SimpleNamespace(fn_dir=fn_dir, base_out_dir=os.path.join(s, "c14_o"), out_dir=os.path.join(s, "c14_o", "o"),
                                 temp_dir=os.path.join(s, "c14_o", "t"))
    os.makedirs(os.path.join(fn_dir, "compl_3"), exist_ok=True)
    os.makedirs(like.out_dir, exist_ok=True)
    os.makedirs(like.temp_dir, exist_ok=True)
    saved = (ta.rank, ta.size, ta.comm)
    obs = []
    try:
        ta.comm = _Comm()
        for c in res["json"]:
            N, P = c["N"], c["P"]
            with open(os.path.join(fn_dir, "compl_3", "unique_equations_3.txt"), "w") as f:
                f.write("".join("f%d\n" % i for i in range(N)))
            sl_split, sl_fit, sl_np = [], [], []
            for r in range(P):
                i = utils.split_idx(N, r, P)
                sl_split.append([N if len(i) == 0 and not sl_split else (sl_split[-1][1] if len(i) == 0 else int(i[0])),
                                 (sl_split[-1][1] if sl_split else N) if len(i) == 0 else int(i[-1]) + 1])
                ta.rank, ta.size = r, P
                with contextlib.redirect_stdout(io.StringIO()):
                    lst, a, b = ta.get_functions(3, like)
                a2, b2 = min(a, N), min(b, N)
                # the slice a rank really works on is what it got back
                got = [int(x.strip()[1:]) for x in lst]
                if got != list(range(a2, max(a2, b2))):
                    run.violation("get_functions:N%d:P%d:r%d" % (N, P, r), "get_functions returned lines %s but reports the range [%d,%d)" % (got[:6], a, b),
                                  {"N": N, "P": P, "r": r})
                sl_fit.append([a2, max(a2, b2)])
            # an empty split_idx slice carries no position: place it where the previous slice ended
            if sl_split and sl_split[0][0] == N and N > 0 and sl_split[0][1] == N:
                pass
            parts = np.array_split(np.arange(N), P)
            pos = 0
            for prt in parts:
                sl_np.append([pos, pos + len(prt)])
                pos += len(prt)
            fix = []
            pos = 0
            for r in range(P):
                i = utils.split_idx(N, r, P)
                fix.append([pos, pos] if len(i) == 0 else [int(i[0]), int(i[-1]) + 1])
                pos = fix[-1][1]
            obs.append({"id": len(obs), "kind": "slices", "what": "split_idx", "N": N, "P": P, "sl": fix})
            obs.append({"id": len(obs), "kind": "slices", "what": "get_functions", "N": N, "P": P, "sl": sl_fit})
            obs.append({"id": len(obs), "kind": "slices", "what": "array_split", "N": N, "P": P, "sl": sl_np})
    finally:
        ta.rank, ta.size, ta.comm = saved
    jres, failed = tlc.judge("PartitionJudge", obs)
    run.add_tlc(jres, "partition_judge")
    for i, cl in sorted(failed.items())[:10]:
        o = obs[i]
        run.violation("%s:N%d:P%d" % (o["what"], o["N"], o["P"]), "%s slices %s for N=%d P=%d violate %s" % (o["what"], o["sl"], o["N"], o["P"], cl), o)
    run.add("partition", evaluations=len(obs), nontrivial=sum(1 for o in obs if o["P"] > 1), traces=len(obs), pairs=len(res["json"]))
    run.sample({"N": obs[100]["N"], "P": obs[100]["P"], "observed": obs[100]["what"], "slices": obs[100]["sl"]})
    _partition_unbounded(run, s, tier, fn_dir, like)


def _partition_unbounded(run, s, tier, fn_dir, like):
    """Beyond TLC's bounds: PartitionProofs.tla (TLAPS) proves tiling of the closed forms for every N and P; the real split_idx /
    get_functions are compared with those closed forms (evaluated by TLC, PartitionJudge 'closed') on large (N, P)."""
    import random
    from harness import tlaps
    import esr.generation.utils as utils
    import esr.fitting.test_all as ta
    pr = tlaps.prove("PartitionProofs")
    run.cov.setdefault("parts", {})["partition_proofs"] = {"tlaps_obligations": pr["obligations"], "tlaps_failed": pr["failed"], "tlaps_wall_s": pr["wall_s"]}
    if not pr["ok"]:
        run.violation("proof:PartitionProofs", "TLAPS no longer proves PartitionProofs.tla (%d of %d obligations failed): the slicing design does not tile for all N, P" % (
            pr["failed"], pr["obligations"]))
    if tier == "thorough":
        # the proofs are about the definitions: a changed definition must make them fail
        for f, old, new in [("PartitionDefs.tla", "(IF r < (n % p) THEN 1 ELSE 0)", "(IF r <= (n % p) THEN 1 ELSE 0)"),
                            ("PartitionDefs.tla", "nLs' = nLs - 1", "nLs' = nLs - 2"),
                            ("PartitionDefs.tla", "FitHi(n, r, p, k) == IF r = p - 1 THEN n ELSE", "FitHi(n, r, p, k) == IF r = p THEN n ELSE")]:
            bad = tlaps.prove("PartitionProofs", patch={f: (old, new)})
            if bad["ok"]:
                raise RuntimeError("self-test: TLAPS still proves PartitionProofs with the definition changed (%s -> %s)" % (old, new))
        run.cov["parts"]["partition_proofs"]["selftest_changed_definitions_rejected"] = 3
    rng = random.Random(evidence.seed() + 14)
    obs = []
    pairs = [(rng.randrange(10 ** 3, 10 ** 6), rng.randrange(13, 4096)) for _ in range(40 if tier == "quick" else 400)]
    pairs += [(rng.randrange(0, 300), rng.randrange(300, 3000)) for _ in range(10 if tier == "quick" else 100)]      # more ranks than functions
    for N, P in pairs:
        ranks = sorted(set([0, 1, P - 2, P - 1, N % P, max(0, N % P - 1)] + [rng.randrange(P) for _ in range(24)]))
        rows = []
        for r in ranks:
            i = utils.split_idx(N, r, P)
            if len(i):
                rows.append([r, int(i[0]), int(i[-1]) + 1])
            else:
                lo = r * (N // P) + min(r, N % P)         # an empty slice carries no position: only its emptiness is observable
                rows.append([r, lo, lo])
                if lo != (r + 1) * (N // P) + min(r + 1, N % P):
                    run.violation("split_idx_empty:N%d:P%d:r%d" % (N, P, r), "split_idx(%d, %d, %d) is empty but the section has elements" % (N, r, P), {"N": N, "P": P, "r": r})
        obs.append({"id": len(obs), "kind": "closed", "what": "split_idx", "N": N, "P": P, "ranks": rows})
    saved = (ta.rank, ta.size, ta.comm)
    try:
        ta.comm = _Comm()
        fpairs = [(rng.randrange(50, 4000), rng.randrange(13, 600)) for _ in range(12 if tier == "quick" else 80)]
        fpairs += [(rng.randrange(0, 40), rng.randrange(41, 400)) for _ in range(6 if tier == "quick" else 40)]
        for N, P in fpairs:
            with open(os.path.join(fn_dir, "compl_3", "unique_equations_3.txt"), "w") as f:
                f.write("".join("f%d\n" % i for i in range(N)))
            ranks = sorted(set([0, 1, P - 2, P - 1] + [rng.randrange(P) for _ in range(12)])) if tier == "quick" else list(range(P))
            rows = []
            for r in ranks:
                ta.rank, ta.size = r, P
                with contextlib.redirect_stdout(io.StringIO()):
                    lst, a, b = ta.get_functions(3, like)
                got = [int(x.strip()[1:]) for x in lst]
                lo = min(a, N)
                hi = max(lo, min(b, N))
                if got != list(range(lo, hi)):
                    run.violation("get_functions:N%d:P%d:r%d" % (N, P, r), "get_functions returned lines %s.. but reports the range [%d,%d)" % (got[:6], a, b), {"N": N, "P": P, "r": r})
                rows.append([r, lo, hi])
            obs.append({"id": len(obs), "kind": "closed", "what": "get_functions", "N": N, "P": P, "ranks": rows})
    finally:
        ta.rank, ta.size, ta.comm = saved
    jres, failed = tlc.judge("PartitionJudge", obs)
    run.add_tlc(jres, "partition_closed_form_judge")
    for i, cl in sorted(failed.items())[:10]:
        o = obs[i]
        run.violation("%s_closed:N%d:P%d" % (o["what"], o["N"], o["P"]), "%s on N=%d P=%d: ranks %s are not the closed-form slices PartitionProofs.tla reasons about: %s" % (
            o["what"], o["N"], o["P"], o["ranks"][:6], cl), o)
    run.add("partition_closed_form", evaluations=sum(len(o["ranks"]) for o in obs), nontrivial=len(obs), traces=len(obs))


def _startup(run, s, tier):
    """Schedule replay of the likelihood constructor from a fresh directory (binding C)."""
    for P in ([2] if tier == "quick" else [2, 3]):
        pred = {}
        for at in ("FALSE", "TRUE"):
            res = tlc.must(tlc.run("FS", "FS_sched.cfg", constants={"P": str(P), "Atomic": at, "UseBarrier": "TRUE", "Phase2": "FALSE"}, workers=1), "FS")
            run.add_tlc(res, "fs_P%d_atomic%s" % (P, at))
            pred[at] = {tuple(j["sched"]): sorted(j["failed"]) for j in res["json"]}
        scheds = sorted(pred["FALSE"])
        outcomes = {}
        mismatch = None
        for k, sch in enumerate(scheds):
            dd = os.path.join(s, "c14_start_%d_%d" % (P, k))
            os.makedirs(dd)
            data.gauss_file(os.path.join(dd, "d.txt"), lambda x: 2 * x + 1, n=8)
            res = coord.run_ranks(P, "harness.targets:construct_like", ("gauss", "d.txt", "r", dd, "core_maths"), s, mode="sched",
                                  policy=coord.Policy("list", order=list(range(P)) + list(sch)), yield_fs=True, timeout=300)
            if res["status"] == "timeout":
                raise RuntimeError("stand-in timeout in start-up replay: " + res["detail"])
            failed = sorted(r for r, c in res["exit"].items() if c not in (0, 86))
            outcomes[sch] = failed
            # conformance of the recorded file-system steps with FS.tla's actions: a grant executes the step the
            # rank was waiting at; the executed steps must be the requested behaviour (IsDir, then at most one create)
            pending, steps = {}, []
            for e in res["events"]:
                if e["ev"] == "yield":
                    pending[e["rank"]] = e["kind"]
                elif e["ev"] == "post":
                    pending[e["rank"]] = None
                elif e["ev"] == "grant" and pending.get(e["rank"]):
                    steps.append((e["rank"], pending[e["rank"]]))
                    pending[e["rank"]] = None
            if sorted(r for r, k in steps if k == "isdir") != list(range(P)) or any(k not in ("isdir", "mkdir", "makedirs") for _, k in steps) \
                    or [r for r, _ in steps] != list(sch)[:len(steps)]:
                mismatch = (steps, sch)          # the constructor no longer has the step structure FS.tla models: explore it dynamically below
                shutil.rmtree(dd, ignore_errors=True)
                break
            if failed:
                t = coord.tail(res["out"][failed[0]], 4)
                run.violation("startup_race:P%d:%s" % (P, "".join(map(str, sch))),
                              "constructing the likelihood on %d ranks from a fresh directory, file-system steps in rank order %s: rank(s) %s failed and the others block in the next collective (%s)\n%s" % (
                                  P, list(sch), failed, res["status"], t), {"P": P, "schedule": list(sch)})
            shutil.rmtree(dd, ignore_errors=True)
        if mismatch is not None:
            # fall-back that does not depend on the model's step structure: depth-first exploration of the real processes' file-system interleavings
            cnt = [0]

            def make_args(k):
                d2 = os.path.join(s, "c14_dyn_%d_%d" % (P, k))
                os.makedirs(d2)
                data.gauss_file(os.path.join(d2, "d.txt"), lambda x: 2 * x + 1, n=8)
                cnt[0] += 1
                return ("gauss", "d.txt", "r", d2, "core_maths")
            runs = coord.explore(P, "harness.targets:construct_like", make_args, s, max_runs=40 if tier == "quick" else 200)
            for trace, res in runs:
                failed = sorted(r_ for r_, c in res["exit"].items() if c not in (0, 86))
                if failed:
                    run.violation("startup_race:dynamic:P%d" % P, "constructing the likelihood on %d ranks from a fresh directory: with the ranks scheduled in the order %s rank(s) %s failed (%s)\n%s" % (
                        P, trace, failed, res["status"], coord.tail(res["out"][failed[0]], 4)), {"P": P, "grants": trace})
            run.add("startup_P%d_dynamic" % P, evaluations=len(runs), nontrivial=len(runs), traces=len(runs), model_mismatch=str(mismatch)[:300])
            continue
        agree = {at: sum(1 for sch in scheds if outcomes[sch] == pred[at].get(sch, [])) for at in pred}
        run.add("startup_P%d" % P, evaluations=len(scheds), nontrivial=len(scheds), traces=len(scheds),
                schedules=len(scheds), outcomes_as_check_then_act_model=agree["FALSE"], outcomes_as_atomic_model=agree["TRUE"])
        run.sample({"P": P, "schedule": list(scheds[len(scheds) // 2]), "model_failed_if_check_then_act": pred["FALSE"][scheds[len(scheds) // 2]],
                    "observed_failed": outcomes[scheds[len(scheds) // 2]]})
    for ub, at, expect in (("TRUE", "TRUE", True), ("FALSE", "TRUE", False), ("TRUE", "FALSE", False)):
        res = tlc.must(tlc.run("FS", "FS_safe.cfg", constants={"P": "3", "Atomic": at, "UseBarrier": ub, "Phase2": "TRUE"}, workers=4), "FS phase 2")
        run.add_tlc(res, "fs_phase2_barrier%s_atomic%s" % (ub, at))
        if (not res["violated"]) != expect:
            raise tlc.TLCError("FS.tla phase 2: NoFailure expected %s with barrier=%s atomic=%s" % (expect, ub, at))


def _stages(run, s, tier):
    # rank counts: small, more than ten ranks that all own functions (two-digit rank numbers in the partial file names), more ranks than functions
    plans = [("core_maths", 3, [2, 3, 5, 11, 16]), ("core_maths", 2, [3])] if tier == "quick" else \
        [("core_maths", 3, [2, 3, 4, 5, 7, 8, 11, 12, 16]), ("core_maths", 2, [2, 3, 5]), ("core_maths", 4, [3, 7, 11, 13, 16])]
    plans.append(("verif_one", 1, [2] if tier == "quick" else [2, 3]))          # N = 1: a library with exactly one function
    for name, n, Ps in plans:
        L, _ = common.gen_library(run, s, name, n, basis=ONE if name == "verif_one" else None)
        if L is None:
            continue
        ref = None
        for P in [1] + Ps:
            dd = os.path.join(s, "c14_fit_%s_%d_%d" % (name, n, P))
            os.makedirs(dd)
            data.gauss_file(os.path.join(dd, "d.txt"), lambda x: 1.5 * x * x + 0.7, n=25, sigma=0.2)
            # serialised schedules: the highest rank always first / rank 0 always first (rank 0 then reaches its concatenation steps as early as the
            # collectives allow, the others write as late as they allow)
            for mode, pol in (("free", None),) if P == 1 else (("free", None), ("sched", coord.Policy("highfirst")), ("sched", coord.Policy("lowfirst"))):
                if mode == "sched" and (P > 5 or (pol.kind == "lowfirst" and P > 3)):
                    continue
                shutil.rmtree(os.path.join(dd, "fitting"), ignore_errors=True)
                res = coord.run_ranks(P, "harness.targets:fit_stages_det", ("gauss", "d.txt", "r", dd, name, n, ["fit", "fisher", "match", "combine"], FIT_OPTS),
                                      s, mode=mode, policy=pol, timeout=1500)
                key = "stages:%s:n%d:P%d:%s" % (name, n, P, mode if pol is None else pol.kind)
                if res["status"] != "ok":
                    bad = [r for r, c in res["exit"].items() if c not in (0, 86)]
                    run.violation(key, "fitting stages on %d ranks (%s, %d functions, %d uniques) did not complete: %s %s\n%s" % (
                        P, mode, len(L.all_eq), len(L.uniq), res["status"], res["detail"][:300], coord.tail(res["out"][bad[0] if bad else 0], 8)),
                                  {"P": P, "library": name, "n": n})
                    continue
                outd = os.path.join(dd, "fitting", "output", "output_r")
                files = {f % n: open(os.path.join(outd, f % n)).read() if os.path.exists(os.path.join(outd, f % n)) else None for f in STAGE_FILES}
                rows = {f: (len(v.splitlines()) if v is not None else -1) for f, v in files.items()}
                expect = {STAGE_FILES[0] % n: len(L.uniq), STAGE_FILES[1] % n: len(L.uniq), STAGE_FILES[2] % n: len(L.uniq), STAGE_FILES[3] % n: len(L.all_eq)}
                for f, want in expect.items():
                    if rows[f] != want:
                        run.violation(key + ":" + f, "%s has %d rows with %d ranks, one per function would be %d" % (f, rows[f], P, want), {"P": P, "file": f})
                idx = [int(float(l.split()[2])) for l in (files[STAGE_FILES[3] % n] or "").splitlines()]
                if idx != L.matches[:len(idx)]:
                    k = next(i for i, (a, b) in enumerate(zip(idx, L.matches)) if a != b)
                    run.violation(key + ":index", "codelen_matches row %d refers to unique %d, the library's match of function %d is %d (P=%d)" % (k, idx[k], k, L.matches[k], P), {"P": P})
                if P == 1:
                    ref = files
                elif ref is not None:
                    for f in files:
                        if files[f] != ref[f]:
                            a, b = (files[f] or "").splitlines(), (ref[f] or "").splitlines()
                            k = next((i for i, (x, y) in enumerate(zip(a, b)) if x != y), min(len(a), len(b)))
                            run.violation(key + ":" + f, "%s differs between %d ranks and 1 rank (fits re-seeded per function, so rows depend only on the function): first differing row %d\n  P=%d: %s\n  P=1: %s" % (
                                f, P, k, P, a[k][:120] if k < len(a) else None, b[k][:120] if k < len(b) else None), {"P": P, "file": f, "row": k})
                if mode == "free":
                    ev = [{"ev": "header", "P": P}] + [e for e in res["events"] if e["ev"] in ("post", "coll", "exit", "mismatch")]
                    acc, cons, tres = tlc.validate_trace("CollTrace", "CollTrace.cfg", ev)
                    run.add_tlc(tres, "colltrace_%s_n%d_P%d" % (name, n, P))
                    if not acc:
                        run.violation(key + ":trace", "coordinator trace rejected by CollTrace.tla: %s (consumed %s of %d events)" % (tres["clauses"], cons, len(ev)), {"P": P})
                run.add("stages", evaluations=1, nontrivial=1 if P > 1 else 0, traces=1)
            shutil.rmtree(dd, ignore_errors=True)
        run.sample({"library": name, "n": n, "functions": len(L.all_eq), "uniques": len(L.uniq), "rank_counts": [1] + Ps})


def _make_changes(run, s, tier):
    """generation stage: per-rank rewrites merged by the real make_changes on P real ranks, for every N up to a bound"""
    import json
    ns = list(range(0, 26 if tier == "quick" else 41))
    total = 0
    for P in ([2, 3, 4, 5, 7] if tier == "quick" else [2, 3, 4, 5, 6, 7, 8, 11, 16]):
        outp = os.path.join(s, "c14_mc_%d.json" % P)
        res = coord.run_ranks(P, "harness.targets:make_changes_batch", (ns, outp), s, timeout=900)
        total += len(ns)
        if res["status"] != "ok":
            bad = [k for k, c in res["exit"].items() if c not in (0, 86)]
            run.violation("make_changes:P%d:%s" % (P, res["status"]), "merging per-rank rewrites on %d ranks did not complete: %s %s\n%s" % (
                P, res["status"], res["detail"][:300], coord.tail(res["out"][bad[0] if bad else 0], 8)), {"P": P})
            continue
        for b in json.load(open(outp))[:3]:
            run.violation("make_changes:N%d:P%d" % (b["N"], b["P"]), "after make_changes on %d ranks the lists of N=%d functions are not the per-rank rewrites in file order: %s" % (b["P"], b["N"], b["errors"]), b)
    run.add("make_changes", evaluations=total, nontrivial=total, traces=total)


def _startup_dynamic(run, s, tier):
    """depth-first exploration of the file-system interleavings of what every stage does first (constructor + get_functions) on real
    ranks; independent of FS.tla's step structure, so a change that adds directory steps on other ranks is explored, not skipped"""
    L, _ = common.gen_library(run, s, "core_maths", 2)
    if L is None:
        return
    for P in ([2] if tier == "quick" else [2, 3]):
        def make_args(k, P=P):
            d2 = os.path.join(s, "c14_su_%d_%d" % (P, k))
            os.makedirs(d2)
            data.gauss_file(os.path.join(d2, "d.txt"), lambda x: 2 * x + 1, n=8)
            return ("gauss", "d.txt", "r", d2, "core_maths", 2)
        runs = coord.explore(P, "harness.targets:startup_stage", make_args, s, max_runs=24 if tier == "quick" else 120)
        for trace, res in runs:
            failed = sorted(r_ for r_, c in res["exit"].items() if c not in (0, 86))
            if failed or res["status"] != "ok":
                run.violation("startup_race:stage:P%d" % P, "likelihood constructor + get_functions on %d ranks from a fresh directory: with the ranks' file-system steps scheduled in the order %s rank(s) %s failed (%s %s)\n%s" % (
                    P, trace, failed, res["status"], res["detail"][:200], coord.tail(res["out"][failed[0] if failed else 0], 4)), {"P": P, "grants": trace})
        run.add("startup_stage_P%d" % P, evaluations=len(runs), nontrivial=len(runs), traces=len(runs))
        for k in range(len(runs)):
            shutil.rmtree(os.path.join(s, "c14_su_%d_%d" % (P, k)), ignore_errors=True)


def run(tier, replay=None):
    r = evidence.Run(PID, tier, "model_checking")
    s = scratch.make()
    scratch.activate(s)
    _partition(r, s, tier)
    _make_changes(r, s, tier)
    _startup(r, s, tier)
    _startup_dynamic(r, s, tier)
    _stages(r, s, tier)
    r.cov["rule"] = ("partition: every (N,P) of Partition.tla's state space, real split_idx / get_functions / numpy.array_split slices judged by "
                     "PartitionJudge!Tiles; start-up: every interleaving of the constructor's isdir/mkdir steps enumerated by FS.tla replayed on real "
                     "processes; stages: Fit/Fisher/Match/Combine on P ranks, outputs byte-compared with the 1-rank run (fits re-seeded per function), "
                     "free-running and with rank 0 slowest; non-trivial = P > 1")
    r.assumptions += ["MPI stand-in implements the collectives as Coll.tla states", "per-function re-seeding of numpy.random makes a fit a function of the function string"]
    return r.finish(exhaustive=True)
