"""C16 Results do not depend on earlier runs."""
import hashlib, json, os, random, shutil
from harness import scratch, tlc, evidence, pool, lib, coord, data, bases, history
from checks import common

PID = "C16"
OUT = "data_r/fitting/output/output_r/"
LIB3 = "esr/function_library/core_maths/compl_3/"
SUB = [["x", "a"], ["inv", "exp"], ["+", "pow"]]
CALLS = {   # name -> (call dict, abstract declared files, abstract outputs)
    "gen2": ({"op": "gen", "runname": "core_maths", "n": 2}, [], ["lib2"]),
    "gen3": ({"op": "gen", "runname": "core_maths", "n": 3}, [], ["lib3"]),
    "gen4": ({"op": "gen", "runname": "core_maths", "n": 4}, [], ["lib4"]),
    "genext": ({"op": "gen", "runname": "ext_maths", "n": 3}, [], ["libext"]),
    "gensub": ({"op": "gen", "runname": "verif_h", "n": 3, "basis": SUB}, [], ["libsub"]),
    "staleround": ({"op": "plant_rounds", "runname": "core_maths", "n": 3}, [], ["rounds3"]),
    "fit": ({"op": "fit", "n": 3, "seed": 0}, ["lib3"], ["nll", "tmp"]),
    "fit7": ({"op": "fit", "n": 3, "seed": 7}, ["lib3"], ["nll", "tmp"]),
    "fitother": ({"op": "fit", "n": 3, "seed": 3, "run": "other"}, ["lib3"], ["otherout", "tmp"]),
    "fisher": ({"op": "fisher", "n": 3}, ["lib3", "nll"], ["fish", "tmp"]),
    # an earlier COMPLETED Fisher run on two ranks (executed by the stand-in before the history process starts; only as first element)
    "fisherP2": ({"op": "fisher", "n": 3, "ranks": 2}, ["lib3", "nll"], ["fish", "tmp"]),
    # the non-default option ignore_previous_eqns: same complexity, another function set earlier in the same process
    "fitprevext": ({"op": "fit", "n": 3, "seed": 0, "prev": True, "fn_set": "ext_maths", "run": "pe"}, ["libext"], ["otherout", "tmp"]),
    "fitprev": ({"op": "fit", "n": 3, "seed": 0, "prev": True, "run": "pc"}, ["lib3"], ["nllprev", "tmp"]),
    "match": ({"op": "match", "n": 3}, ["lib3", "nll", "fish"], ["cm", "tmp"]),
    "combine": ({"op": "combine", "n": 3}, ["lib3", "cm"], ["final", "tmp"]),
}
# further earlier calls, used in hand-written histories only (not part of Hist.tla's enumeration): a large library generated earlier in the same process
EXTRA = {"gen6": ({"op": "gen", "runname": "core_maths", "n": 6}, [], ["lib6"])}
ABSTRACT = ["lib2", "lib3", "lib4", "libext", "libsub", "nll", "fish", "cm", "final", "tmp", "otherout", "rounds3", "nllprev"]
# concrete declared inputs / outputs of the observed calls (paths relative to the scratch root)
LIBC = "esr/function_library/core_maths/"
DECL = {"gen3": [], "gen4": [],
        "fitprev": [LIB3 + "unique_equations_3.txt", LIBC + "compl_1/unique_equations_1.txt", LIBC + "compl_2/unique_equations_2.txt", "data_r/d.txt"],
        "fit": [LIB3 + "unique_equations_3.txt", "data_r/d.txt"],
        "fisher": [LIB3 + "unique_equations_3.txt", "data_r/d.txt", OUT + "negloglike_comp3.dat"],
        "match": [LIB3 + "all_equations_3.txt", LIB3 + "matches_3.txt", LIB3 + "inv_subs_3.txt", "data_r/d.txt", OUT + "negloglike_comp3.dat", OUT + "derivs_comp3.dat"],
        "combine": [LIB3 + "unique_equations_3.txt", LIB3 + "all_equations_3.txt", LIB3 + "aifeyn_3.txt", "data_r/d.txt", OUT + "codelen_matches_comp3.dat"]}
OUTS = {"gen3": [LIB3], "gen4": ["esr/function_library/core_maths/compl_4/"],
        "fitprev": ["data_r/fitting/output/output_pc/negloglike_comp3.dat"],
        "fit": [OUT + "negloglike_comp3.dat"], "fisher": [OUT + "codelen_comp3_deriv.dat", OUT + "derivs_comp3.dat"],
        "match": [OUT + "codelen_matches_comp3.dat"],
        "combine": [OUT + "final_3.dat", OUT + "combine_DL_comp3.dat", OUT + "combine_DL_fcn_comp3.dat", OUT + "results_pretty_3.txt"]}
OBSERVED = ["gen3", "gen4", "fit", "fisher", "match", "combine", "fitprev"]


def _tla_set(xs):
    return "{%s}" % ", ".join(json.dumps(x) for x in xs)


def _histories(r, X, maxh):
    names = sorted(CALLS)
    decl = "[c \\in %s |-> CASE %s]" % (_tla_set(names), " [] ".join('c = "%s" -> %s' % (n, _tla_set(CALLS[n][1])) for n in names))
    outs = "[c \\in %s |-> CASE %s]" % (_tla_set(names), " [] ".join('c = "%s" -> %s' % (n, _tla_set(CALLS[n][2])) for n in names))
    consts = {"Files": _tla_set(ABSTRACT), "Calls": _tla_set(names), "Declared": decl, "Outputs": outs, "X": json.dumps(X), "Leak": "FALSE",
              "LeakFile": '"tmp"', "MaxHist": str(maxh)}
    res = tlc.must(tlc.run("Hist", "SPECIFICATION EnumSpec\nINVARIANT EmitHistory\nCHECK_DEADLOCK FALSE\n", constants=consts, workers=1), "Hist enum")
    r.add_tlc(res, "hist_enum_%s" % X)
    ok = tlc.must(tlc.run("Hist", "SPECIFICATION Spec\nINVARIANT SameOutputs\nCHECK_DEADLOCK FALSE\n", constants=consts, workers=4), "Hist theorem")
    r.add_tlc(ok, "hist_theorem_%s" % X)
    if ok["violated"]:
        raise tlc.TLCError("Hist.tla: SameOutputs violated without a leak for X=%s" % X)
    leak = dict(consts, Leak="TRUE")
    bad = tlc.must(tlc.run("Hist", "SPECIFICATION Spec\nINVARIANT SameOutputs\nCHECK_DEADLOCK FALSE\n", constants=leak, workers=1), "Hist leak")
    if "SameOutputs" not in bad["violated"] and X != "gen3" and X != "gen4":
        raise tlc.TLCError("Hist.tla: a leaking call is not detected for X=%s (vacuous theorem)" % X)
    return [h for h in res["json"] if isinstance(h, dict)]


def _baseline(r, s0):
    """library core_maths n=3 and one complete pipeline run: the files 'given' before any history"""
    L, _ = common.gen_library(r, s0, "core_maths", 3)
    if L is None:
        return False
    for nm, nn in (("core_maths", 1), ("core_maths", 2), ("ext_maths", 1), ("ext_maths", 2), ("ext_maths", 3)):
        if common.gen_library(r, s0, nm, nn)[0] is None:
            return False
    dd = os.path.join(s0, "data_r")
    os.makedirs(dd)
    data.gauss_file(os.path.join(dd, "d.txt"), lambda x: 1.5 * x * x + 0.7, n=25, sigma=0.2)
    calls = [CALLS[c][0] for c in ("fit", "fisher", "match", "combine")]
    out = pool.parallel("harness.history:run_history", [(calls, os.path.join(s0, "base.json"))], s0)
    st = json.load(open(os.path.join(s0, "base.json")))["status"]
    if out[0][0] != 0 or any(x != "ok" for x in st):
        raise RuntimeError("baseline pipeline failed: %s %s" % (st, out[0][1][-500:]))
    return True


def _clone(s0, only=None):
    s = scratch.make()
    for top in ("esr/function_library", "data_r"):
        src = os.path.join(s0, top)
        if only is None and os.path.isdir(src):
            shutil.copytree(src, os.path.join(s, top), dirs_exist_ok=True)
    if only is not None:
        for rel in only:
            src = os.path.join(s0, rel)
            if os.path.exists(src):
                os.makedirs(os.path.dirname(os.path.join(s, rel)), exist_ok=True)
                shutil.copy(src, os.path.join(s, rel))
    return s


def _drop(s):
    if s in scratch._made:
        scratch._made.remove(s)
    shutil.rmtree(s, ignore_errors=True)


def run(tier, replay=None):
    r = evidence.Run(PID, tier, "model_checking")
    rng = random.Random(evidence.seed())
    s0 = scratch.make()
    if not _baseline(r, s0):
        return r.finish(exhaustive=False)
    maxh = 1 if tier == "quick" else 2
    jobs = []
    for X in OBSERVED:
        hs = _histories(r, X, maxh)
        if tier == "thorough" and len(hs) > 60:
            short = [h for h in hs if len(h["hist"]) <= 1]
            hs = short + rng.sample([h for h in hs if len(h["hist"]) == 2], 60 - len(short))
        for h in hs:
            jobs.append((X, h["hist"], h["premise"]))
        jobs.append((X, [X], False))                       # the identical call repeated
        if tier == "thorough":
            jobs.append((X, [X, X], False))
    jobs += [("gen4", ["gen6"], False)] + ([("gen3", ["gen6"], False), ("gen3", ["gen6", "genext"], False)] if tier == "thorough" else [])
    ALLC = dict(CALLS, **EXTRA)
    # ---- runs A (history then X), in parallel batches
    fresh_cache = {}
    nproc = 8
    results = []
    for b in range(0, len(jobs), nproc):
        batch = jobs[b:b + nproc]
        scr, args = [], []
        for X, hist, prem in batch:
            sA = _clone(s0)
            scr.append(sA)
            pre = [c for c in hist if ALLC[c][0].get("ranks")]
            for c in pre:          # an earlier completed multi-rank run of a stage, in its own processes
                cd = ALLC[c][0]
                rr = coord.run_ranks(cd["ranks"], "harness.targets:fit_stages", ("gauss", "d.txt", cd.get("run", "r"), os.path.join(sA, "data_r"), "core_maths", cd["n"], [cd["op"]], 0,
                                                                                 {"fit": {"tmax": 120}, "fisher": {"tmax": 120}, "match": {"tmax": 120}}), sA, timeout=1800)
                if rr["status"] != "ok":
                    raise RuntimeError("pre-history stage run failed: %s" % rr["detail"])
            calls = [ALLC[c][0] for c in hist if c not in pre] + [CALLS[X][0]]
            args.append((calls, os.path.join(sA, "hist_out.json")))
        procs = [pool.parallel("harness.history:run_history", [a], sc) for a, sc in zip(args, scr)] if False else None
        # one process per history, all of the batch concurrently
        import threading
        outs = [None] * len(batch)

        def work(i):
            outs[i] = pool.parallel("harness.history:run_history", [args[i]], scr[i], timeout=1800)[0]
        th = [threading.Thread(target=work, args=(i,)) for i in range(len(batch))]
        [t.start() for t in th]
        [t.join() for t in th]
        for (X, hist, prem), sA, a, o in zip(batch, scr, args, outs):
            if o[0] != 0:
                raise RuntimeError("history worker failed: " + o[1][-800:])
            rec = json.load(open(a[1]))
            key = "%s<-%s" % (X, "+".join(hist) or "fresh")
            if rec["status"][-1] != "ok":
                r.violation("crash:" + key, "call %s after history %s failed: %s" % (X, hist, rec["status"][-1]), {"X": X, "history": hist})
                _drop(sA)
                continue
            if any(x != "ok" for x in rec["status"][:-1]):
                _drop(sA)       # an earlier call of the history failed on its own: not this property's subject
                continue
            snapA = history.snapshot(sA, OUTS[X])
            inputs = {rel: hashlib.sha1(open(os.path.join(sA, rel), "rb").read()).hexdigest() for rel in DECL[X] if os.path.exists(os.path.join(sA, rel))}
            ikey = (X, json.dumps(inputs, sort_keys=True))
            if ikey not in fresh_cache:
                sB = _clone(sA, only=DECL[X])
                ob = pool.parallel("harness.history:run_history", [([CALLS[X][0]], os.path.join(sB, "hist_out.json"))], sB, timeout=1800)[0]
                recB = json.load(open(os.path.join(sB, "hist_out.json"))) if ob[0] == 0 else {"status": ["worker failed"]}
                fresh_cache[ikey] = (history.snapshot(sB, OUTS[X]), recB["status"][-1])
                _drop(sB)
            snapB, stB = fresh_cache[ikey]
            if stB != "ok":
                r.violation("crash_fresh:" + X, "call %s in a fresh process on the same inputs failed: %s" % (X, stB), {"X": X})
            elif any(snapA.get(f) != h for f, h in snapB.items()):
                # the files the call produces are those of the fresh run; other files an earlier run left in the directory are not its output
                diff = sorted(f for f in snapB if snapA.get(f) != snapB.get(f))
                r.violation("differs:" + key, "outputs of %s after history %s differ from a fresh process with empty output directories on the same inputs: %s" % (
                    X, hist, diff[:6]), {"X": X, "history": hist, "files": diff})
            # ---- file-operation trace of the whole history, observed call = last, judged by HistTrace.tla
            ev = rec["events"]
            ids = {}
            for e in ev:
                ids.setdefault(e["f"], len(ids) + 1)
            for rel in DECL[X]:
                ids.setdefault(rel, len(ids) + 1)
            initial = [os.path.exists(os.path.join(s0, f)) for f, _ in sorted(ids.items(), key=lambda kv: kv[1])]
            trace = [{"ev": "header", "observed": len([c for c in hist if not ALLC[c][0].get("ranks")]) + 1, "declared": [ids[x] for x in DECL[X]], "nfiles": len(ids), "initial": initial}]
            for e in ev:
                t = {"ev": e["ev"], "call": e["call"], "f": ids[e["f"]], "mode": e.get("mode", "-"), "existed": bool(e.get("existed", False))}
                trace.append(t)
            acc, cons, tres = tlc.validate_trace("HistTrace", "HistTrace.cfg", trace)
            r.add_tlc(tres, "trace")
            if not acc:
                names = {v: k for k, v in ids.items()}
                what = ["%s on %s (event %d)" % (c[0], names.get(next((j["f"] for j in tres["json"] if isinstance(j, dict) and j.get("violated") == c[0]), 0), "?"), c[1]) for c in tres["clauses"]]
                r.violation("indep:%s:%s" % (X, ",".join(c[0] for c in tres["clauses"]) or "trace"),
                            "file operations of %s after history %s violate Hist!Indep: %s (consumed %s of %d events)" % (X, hist, what, cons, len(trace)),
                            {"X": X, "history": hist, "clauses": tres["clauses"]})
            results.append((X, hist, prem, len(ev)))
            _drop(sA)
    r.add("histories", evaluations=len(results), nontrivial=sum(1 for x in results if x[1]), traces=len(results), fresh_runs=len(fresh_cache),
          within_model_premise=sum(1 for x in results if x[2]))
    for x in results[3:6]:
        r.sample({"observed": x[0], "history": x[1], "file_events": x[3]})
    r.cov["rule"] = ("histories = behaviours of Hist.tla's EnumSpec: every sequence of <= %d earlier calls (other complexities and bases, fits with another seed / run name, "
                     "the pipeline stages, the same call repeated) before each observed call in {Gen(core,3), Gen(core,4), Fit, Fisher, Match, Combine}; run A executes history + call in "
                     "one process, run B the call alone in a fresh process on a directory holding only its declared inputs (same bytes); outputs compared byte for byte; the "
                     "file-operation trace of A is validated against HistTrace.tla (reads/appends only declared inputs or own files); non-trivial = non-empty history%s" % (
                         maxh, "" if tier == "quick" else "; length-2 histories seeded-sampled to 60 per observed call"))
    r.assumptions += ["fits use numpy's global seed set before each stage call", "shell commands of ESR (cat/sed/mv/rm/touch, find|sort) are projected to file events by a small parser"]
    return r.finish(exhaustive=(tier == "quick"))
