"""C09 Likelihood classes compute the documented negative log-likelihood, never NaN.

spec -> code: Like.tla enumerates every case (class, data vector, vector of model-function values over the
kind alphabet, or a raising model function) with the required result; each case is fed to the real class
through a closure that returns the prescribed values.  code -> spec: the projected results go back to
LikeJudge.tla, which states the verdict clauses."""
import copy, json, math, os, warnings
from harness import scratch, tlc, evidence, targets

PID = "C09"
SPECIAL = ["nan", "pinf", "ninf", "cplx"]
LN = [1.0, math.log(2.0), math.log(3.0), math.log(2.0 * math.pi)]
VERDICT = {"never_nan", "inf_exactly_when_required", "value", "returns"}
JUDGE_CHUNK = 100000
EXC = {"ZeroDivisionError": ZeroDivisionError, "OverflowError": OverflowError, "ValueError": ValueError,
       "FloatingPointError": FloatingPointError, "TypeError": TypeError}

# Configurations of Like.tla: data points (y, sigma numerator, sigma denominator) and finite model-function
# values per class (the four special kinds are always in the alphabet).  ASSUME ConstantsOK of Like.tla accepts
# only values whose logarithms / square roots are in the span {1, ln 2, ln 3}.
BASE = {"MaxLen": 3,
        "data": {"gauss": [(1, 1, 1), (3, 2, 1), (-1, 3, 1), (2, 1, 2)],
                 "poisson": [(0, 1, 1), (1, 1, 1), (2, 1, 1), (5, 1, 1)],
                 "mock": [(1, 1, 1), (3, 2, 1), (2, 3, 1), (2, 1, 2)],
                 "mse": [(1, 1, 1), (-2, 1, 1), (3, 2, 1)]},
        "fin": {"gauss": [-2, 0, 1, 3], "poisson": [-2, 0, 1, 2, 6], "mock": [-4, 0, 1, 4, 9], "mse": [-2, 0, 1, 3]}}
WIDE = {"MaxLen": 3,
        "data": {"gauss": [(1, 1, 1), (3, 2, 1), (-1, 3, 1), (2, 1, 2), (0, 6, 1), (4, 9, 4), (9, 4, 3), (-3, 1, 9)],
                 "poisson": [(0, 1, 1), (1, 1, 1), (2, 1, 1), (3, 1, 1), (5, 1, 1), (12, 1, 1)],
                 "mock": [(1, 1, 1), (3, 2, 1), (2, 3, 1), (2, 1, 2), (0, 6, 1), (5, 4, 9)],
                 "mse": [(1, 1, 1), (-2, 1, 1), (3, 2, 1), (0, 1, 1), (7, 1, 3)]},
        "fin": {"gauss": [-2, -9, 0, 1, 3, 4], "poisson": [-2, 0, 1, 2, 3, 4, 6, 9, 12], "mock": [-4, 0, 1, 4, 9, 16],
                "mse": [-2, -9, 0, 1, 3, 4]}}
LONG = {"MaxLen": 4,
        "data": {"gauss": [(1, 1, 1), (3, 2, 3), (-1, 6, 1)], "poisson": [(0, 1, 1), (2, 1, 1), (3, 1, 1)],
                 "mock": [(1, 1, 1), (3, 2, 3), (2, 6, 1)], "mse": [(1, 1, 1), (-2, 1, 1), (4, 1, 1)]},
        "fin": {"gauss": [-1, 3], "poisson": [-1, 6], "mock": [-1, 9], "mse": [-1, 3]}}
TIERS = {"quick": {"configs": [("base", BASE)], "exceptions": ["ZeroDivisionError"], "cplx": [1 + 1j, 1 + 1e-15j], "workers": 8},
         "thorough": {"configs": [("wide", WIDE), ("long", LONG)], "exceptions": sorted(EXC), "cplx": [1 + 1j, 2j, 1 + 1e-15j, 3 - 1e-17j], "workers": 8}}


def _kind(v):
    return "neg" if v < 0 else ("zero" if v == 0 else "pos")


def tla_constants(t):
    dp = lambda d: "[y |-> %d, sn |-> %d, sd |-> %d]" % d
    pe = lambda k, v: '[k |-> "%s", v |-> %d]' % (k, v)
    data = ", ".join("%s |-> <<%s>>" % (c, ", ".join(dp(d) for d in pts)) for c, pts in t["data"].items())
    pred = ", ".join("%s |-> <<%s>>" % (c, ", ".join([pe(_kind(v), v) for v in vs] + [pe(k, 0) for k in SPECIAL]))
                     for c, vs in t["fin"].items())
    return {"MaxLen": str(t["MaxLen"]), "DataOf": "[" + data + "]", "PredOf": "[" + pred + "]",
            "Raising": "{" + ", ".join('"%s"' % c for c in t["data"]) + "}"}


# --- realisation of a case (spec -> code) ------------------------------------------------------------------
def realise(np, pred, cplx):
    """model values -> the ndarray the model function returns"""
    vals = []
    for e in pred:
        k = e["k"]
        vals.append(float(e["v"]) if k in ("neg", "zero", "pos") else
                    {"nan": float("nan"), "pinf": float("inf"), "ninf": float("-inf"), "cplx": cplx}[k])
    if any(isinstance(v, complex) for v in vals):
        return np.array(vals, dtype=complex)
    return np.array(vals, dtype=float)


def realisations(np, c, t):
    """(name, how, arg) list: the ways one model case is presented to the class"""
    if c["exc"]:
        return [("raise:" + e, "raise", e) for e in t["exceptions"]]
    out = []
    has_c = any(e["k"] == "cplx" for e in c["pred"])
    const = all(e == c["pred"][0] for e in c["pred"])
    for n, z in enumerate(t["cplx"] if has_c else [None]):
        vec = realise(np, c["pred"], z)
        out.append(("vector" if n == 0 else "vector:cplx%d" % n, "value", vec))
        if const:   # a constant model function returns a scalar (lambdify of an expression without x)
            out.append(("scalar" if n == 0 else "scalar:cplx%d" % n, "value", vec[0].item()))
    if const and c["pred"][0]["k"] in ("neg", "zero", "pos"):
        out.append(("scalar:int", "value", int(c["pred"][0]["v"])))
    if all(e["k"] in ("neg", "zero", "pos") for e in c["pred"]):
        # the same finite real values, computed the way a fitted function computes them far from its optimum: an intermediate
        # underflows to 0 (exp(-a x)) and another overflows to inf before being inverted -- IEEE flags, not errors
        out.append(("vector:ieee_flags", "flags", realise(np, c["pred"], None)))
    return out


def expected(lin):
    """P3: the model's rational linear form evaluated in double precision"""
    return sum((q[0] / q[1]) * l for q, l in zip(lin, LN))


def project(np, out, exp):
    """return value / exception of negloglike -> (obs, matches)"""
    kind, v = out
    if kind == "raised":
        return "raised", False
    if isinstance(v, np.ndarray) and v.ndim == 0:
        v = v.item()
    if isinstance(v, (bool, np.bool_)) or not isinstance(v, (float, int, np.floating, np.integer)):
        return "nonreal", False     # complex, array, None, ...
    v = float(v)
    if math.isnan(v):
        return "nan", False
    if math.isinf(v):
        return ("inf" if v > 0 else "neginf"), False
    return "finite", abs(v - exp) <= 1e-9 * max(1.0, abs(v), abs(exp))


class Objects:
    """Real likelihood objects on data files written from the case; one object per (class, data vector).
    get() returns [(prefix of the realisation name, object)]: for "mock" the MockLikelihood object and the shipped
    CCLikelihood object carrying the same data (so that CCLikelihood.get_pred / negloglike are the code that runs)."""

    def __init__(self, s):
        self.s, self.cache, self.n, self.cc0, self.pos, self.init = s, {}, 0, None, {}, {}

    def get(self, cls, data, fresh=False):
        key = (cls, tuple((d["y"], d["sn"], d["sd"]) for d in data))
        if key in self.cache and not fresh:
            return self.cache[key]
        import numpy as np
        import esr.fitting.likelihood as L
        self.n += 1
        dd = os.path.join(self.s, "c09_data_" + cls)
        os.makedirs(os.path.join(dd, "mock"), exist_ok=True)
        x = np.arange(len(data), 0, -1, dtype=float)        # not sorted: the likelihood is a sum over data points in any order
        y = np.array([float(d["y"]) for d in data])
        sg = np.array([d["sn"] / d["sd"] for d in data])
        with warnings.catch_warnings():
            warnings.simplefilter("ignore")
            if cls == "mock":
                # MockLikelihood reads <data_dir>/mock/CC_Hubble_<nz>_<yfracerr>.dat (redshift, H, sigma_H)
                np.savetxt(os.path.join(dd, "mock", "CC_Hubble_%i_0.1.dat" % self.n), np.transpose([x, y, sg]))
                obj = L.MockLikelihood(self.n, 0.1, data_dir=dd)
            else:
                name = "d_%d.txt" % self.n
                np.savetxt(os.path.join(dd, name), np.transpose([x, y] if cls == "poisson" else [x, y, sg]))
                obj = targets.make_like(cls, name, "c09", dd, "core_maths")
        # the model function is given by its value AT EACH DATA POINT: the closure looks the abscissa up (file value, or 1 + z for the
        # cosmic-chronometer classes), so an object that keeps its data in another order than the file is still asked the right thing
        xv = np.atleast_1d(np.asarray(obj.xvar, dtype=float))
        shift = next((t for t in (0.0, 1.0) if sorted(xv.tolist()) == sorted((x + t).tolist())), None)
        if shift is None or sorted(np.atleast_1d(obj.yvar).tolist()) != sorted(y.tolist()):
            raise RuntimeError("binding: the %s object does not hold the data of the case" % cls)
        pos = {float(v + shift): i for i, v in enumerate(x)}
        out = [("", obj)]
        self.pos[id(obj)] = pos
        self.init[id(obj)] = (cls, data, {k: np.array(getattr(obj, k), dtype=float, copy=True) for k in ("xvar", "yvar", "yerr") if hasattr(obj, k)})
        if cls == "mock":
            if self.cc0 is None:
                with warnings.catch_warnings():
                    warnings.simplefilter("ignore")
                    self.cc0 = L.CCLikelihood()      # the shipped cosmic-chronometer data
            cc = copy.copy(self.cc0)
            cc.xvar, cc.yvar, cc.yerr, cc.inv_cov = obj.xvar, obj.yvar, obj.yerr, obj.inv_cov
            self.pos[id(cc)] = pos
            out.append(("cc:", cc))
        self.cache[key] = out
        return out


def call(np, obj, how, arg, npar, pos=None):
    """one call of the real negloglike with a model function given by its values at the data points"""
    def at(x):
        if not hasattr(arg, "copy") or np.ndim(arg) == 0 or not pos:
            return arg.copy() if hasattr(arg, "copy") else arg
        try:
            return arg[[pos[float(v)] for v in np.atleast_1d(x)]]
        except KeyError:
            return arg.copy()
    if how == "raise":
        def eq_numpy(x, *a):
            raise EXC[arg]("model function")
    elif how == "flags":
        def eq_numpy(x, *a):
            v = at(x)
            big = np.full(np.shape(v), 800.0)
            return v + np.exp(-big) * np.exp(-big) + 1.0 / np.exp(big)       # + 0 (underflow) + 1/inf (overflow)
    else:
        def eq_numpy(x, *a):
            return at(x)
    a = [0.5, -1.0, 2.0][:npar]
    with warnings.catch_warnings(), np.errstate(all="ignore"):
        warnings.simplefilter("ignore")
        try:
            return ("value", obj.negloglike(a, eq_numpy))
        except Exception as ex:  # the property: the call returns
            return ("raised", "%s: %s" % (type(ex).__name__, ex))


def nontrivial(c):
    return c["exc"] or any(w != "value" for w in c["why"]) or any(q[0] != 0 for q in c["lin"][1:])


def describe(c):
    d = ",".join("(y=%d,s=%d/%d)" % (p["y"], p["sn"], p["sd"]) for p in c["data"])
    p = "raises" if c["exc"] else ",".join(e["k"] if e["k"] in SPECIAL else str(e["v"]) for e in c["pred"])
    return d, p


def _model_cases(r, t, tag, cfg):
    res = tlc.must(tlc.run("Like", "Like.cfg", constants=tla_constants(cfg), workers=t["workers"], heap="8g"), "Like " + tag)
    if res["violated"]:
        raise tlc.TLCError("Like.tla (%s): the model violates its own invariants %s\n%s" % (tag, res["violated"], res["out"][-2000:]))
    r.add_tlc(res, "like_model_" + tag)
    # the states that are not cases are the 2 initial ones per class (model function returns / raises)
    if len(res["json"]) != res["distinct"] - 2 * len(cfg["data"]):
        raise tlc.TLCError("Like.tla (%s) printed %d cases for %d states" % (tag, len(res["json"]), res["distinct"]))
    return res["json"]


def _selftest(r, obs):
    """Binding self-test: corrupted observations must be rejected by LikeJudge with the right clause (exit 2 otherwise)."""
    first = lambda f: next((dict(o) for o in obs if f(o)), None)
    muts = []
    o = first(lambda o: o["req"] == "INF" and o["obs"] == "inf")
    if o:
        muts += [(dict(o, obs="nan"), "never_nan"), (dict(o, obs="finite", matches=True), "inf_exactly_when_required"),
                 (dict(o, obs="raised"), "returns"), (dict(o, req="VALUE"), "binding_model")]
    o = first(lambda o: o["req"] == "VALUE" and o["obs"] == "finite" and o["matches"])
    if o:
        muts += [(dict(o, matches=False), "value"), (dict(o, obs="inf", matches=False), "inf_exactly_when_required"),
                 (dict(o, obs="neginf", matches=False), "value"), (dict(o, lin=[[1, 1]] + o["lin"][1:]), "binding_model")]
    o = first(lambda o: o["req"] == "FREE")
    if o:
        muts += [(dict(o, obs="nan"), "never_nan")]
    if not muts:
        return
    _, f = tlc.judge("LikeJudge", [dict(m, id=k) for k, (m, _) in enumerate(muts)])
    for k, (m, clause) in enumerate(muts):
        if clause not in f.get(k, []):
            raise tlc.TLCError("binding self-test: corrupted observation accepted by LikeJudge (expected clause %s, got %s): %s" % (clause, f.get(k), m))
    r.add("selftest", evaluations=0, corrupted_observations_rejected=len(muts))


def _precise(r, s, np):
    """Very precise data (error bars 1e-9 of the value) with a model three error bars away: the documented sums of squared residuals,
    evaluated at 40 digits from the doubles the object holds (P3), against the returned value at 1e-6.  (Outside Like.tla's exact alphabet:
    a numerical probe of the same four formulas where residuals are small against the values.)"""
    import mpmath as mp
    import esr.fitting.likelihood as L
    mp.mp.dps = 40
    x = np.array([3.0, 1.0, 2.0])
    y = np.array([70.123, 85.5, 102.75])
    sg = y * 1e-9
    pred = y * (1 + 3e-9)
    dd = os.path.join(s, "c09_precise")
    os.makedirs(os.path.join(dd, "mock"), exist_ok=True)
    np.savetxt(os.path.join(dd, "mock", "CC_Hubble_7_0.1.dat"), np.transpose([x, y, sg]), fmt="%.18e")
    np.savetxt(os.path.join(dd, "g.txt"), np.transpose([x, y, sg]), fmt="%.18e")
    with warnings.catch_warnings():
        warnings.simplefilter("ignore")
        mock = L.MockLikelihood(7, 0.1, data_dir=dd)
        gauss = targets.make_like("gauss", "g.txt", "c09p", dd, "core_maths")
        cc = copy.copy(L.CCLikelihood())
    cc.xvar, cc.yvar, cc.yerr, cc.inv_cov = mock.xvar, mock.yvar, mock.yerr, mock.inv_cov
    n = 0
    for name, obj, vals, form in (("mock", mock, pred ** 2, "mock"), ("cc", cc, pred ** 2, "mock"), ("gauss", gauss, pred, "gauss")):
        xv = np.atleast_1d(np.asarray(obj.xvar, dtype=float))
        lookup = {float(v): float(w) for v, w in zip(np.sort(xv), vals[np.argsort(x)])}     # model value at each abscissa, whatever order the object keeps
        with warnings.catch_warnings(), np.errstate(all="ignore"):
            warnings.simplefilter("ignore")
            got = obj.negloglike([1.0], lambda xx, *a: np.array([lookup[float(v)] for v in np.atleast_1d(xx)]))
        yo, so = np.atleast_1d(obj.yvar).astype(float), np.atleast_1d(obj.yerr).astype(float)
        fo = np.array([lookup[float(v)] for v in xv])
        if form == "mock":
            want = sum((mp.sqrt(mp.mpf(float(f))) - mp.mpf(float(yy))) ** 2 / (2 * mp.mpf(float(ss)) ** 2) for f, yy, ss in zip(fo, yo, so))
        else:
            want = sum((mp.mpf(float(f)) - mp.mpf(float(yy))) ** 2 / (2 * mp.mpf(float(ss)) ** 2) + mp.log(2 * mp.pi) / 2 + mp.log(mp.mpf(float(ss))) for f, yy, ss in zip(fo, yo, so))
        n += 1
        try:
            ok = abs(float(got) - float(want)) <= 1e-6 * max(1.0, abs(float(want)))
        except Exception:
            ok = False
        if not ok:
            r.violation("precise:%s" % name, "%s negloglike on data with error bars 1e-9 of the values and a model three error bars away returned %r; the documented sum evaluated at 40 digits is %s" % (
                name, got, mp.nstr(want, 15)), {"class": name})
    r.add("precise_data_probe", evaluations=n, nontrivial=n)


def run(tier, replay=None):
    r = evidence.Run(PID, tier, "model_checking")
    s = scratch.make()
    scratch.activate(s)
    import numpy as np
    t = TIERS[tier]
    if replay:
        cases = [json.load(open(replay))["replay"]["case"]]
    else:
        cases, seen = [], set()
        for tag, cfg in t["configs"]:
            for c in _model_cases(r, t, tag, cfg):
                k = json.dumps(c, sort_keys=True)
                if k not in seen:       # configurations may overlap
                    seen.add(k)
                    cases.append(c)
    cases.sort(key=lambda c: (c["cls"], json.dumps(c["data"]), c["exc"], json.dumps(c["pred"])))
    objs = Objects(s)
    obs, meta = [], []
    for n, c in enumerate(cases):
        exp = expected(c["lin"])
        try:
            olist = objs.get(c["cls"], c["data"])
        except RuntimeError:
            raise
        except Exception as ex:       # the class cannot even be constructed on this data vector
            d, p = describe(c)
            r.violation("construct:%s:%s" % (c["cls"], type(ex).__name__), "%s likelihood could not be constructed on data %s: %r" % (c["cls"], d, ex), {"case": c})
            continue
        for w, (pre, obj) in enumerate(olist):
            for name, how, arg in realisations(np, c, t):
                out = call(np, obj, how, arg, n % 4, objs.pos.get(id(obj)))
                o, m = project(np, out, exp)
                obs.append({"id": len(obs), "cls": c["cls"], "data": c["data"], "pred": c["pred"], "exc": c["exc"],
                            "req": c["req"], "lin": c["lin"], "obs": o, "matches": m})
                meta.append((n, pre + name, how, arg, out, exp, w))
    # the model function that hands its argument back (the library function 'x'): the object's own data must survive the call
    nprobe = 0
    for key, lst in list(objs.cache.items()):
        for pre, obj in lst:
            if id(obj) not in objs.init:
                continue
            cls, data, init = objs.init[id(obj)]
            nprobe += 1
            with warnings.catch_warnings(), np.errstate(all="ignore"):
                warnings.simplefilter("ignore")
                try:
                    obj.negloglike([0.5], lambda x, *a: x)
                except Exception:
                    pass
            changed = [k for k, v in init.items() if not np.array_equal(np.asarray(getattr(obj, k), dtype=float), v, equal_nan=True)]
            if changed:
                d = ",".join("(y=%d,s=%d/%d)" % (p["y"], p["sn"], p["sd"]) for p in data)
                r.violation("data_modified:%s:%s" % (cls, "+".join(changed)), "%s%s negloglike with the model function f(x) = x (returns its argument) overwrote the object's %s on data %s: every later value of this object is computed on other data" % (
                    pre, cls, changed, d), {"class": cls, "data": data})
    r.add("identity_probe", evaluations=nprobe, nontrivial=nprobe)
    _precise(r, s, np)
    failed = {}
    for k in range(0, len(obs), JUDGE_CHUNK):
        chunk = [dict(o, id=o["id"] - k) for o in obs[k:k + JUDGE_CHUNK]]
        jres, f = tlc.judge("LikeJudge", chunk, heap="8g")
        r.add_tlc(jres, "like_judge_%d" % (k // JUDGE_CHUNK))
        failed.update({i + k: cl for i, cl in f.items()})
    if not replay:
        _selftest(r, obs)
    groups = {}
    for i, cl in failed.items():
        if set(cl) - VERDICT:
            raise tlc.TLCError("binding self-check failed in LikeJudge: %s for %s" % (cl, obs[i]))
        groups.setdefault((obs[i]["cls"], tuple(sorted(cl))), []).append(i)
    for (cls, cl), ids in sorted(groups.items()):
        ids.sort(key=lambda i: (len(obs[i]["pred"]), len(obs[i]["data"]), i))
        for i in ids[:4]:       # the smallest failing cases of each (class, clauses) group
            n, name, how, arg, out, exp, w = meta[i]
            c = cases[n]
            # confirm on a freshly constructed object before reporting
            fo = objs.get(c["cls"], c["data"], fresh=True)[w][1]
            again = project(np, call(np, fo, how, arg, n % 4, objs.pos.get(id(fo))), exp)
            if again != (obs[i]["obs"], obs[i]["matches"]):
                raise RuntimeError("observation not reproducible on a fresh object: %s then %s for %s" % (obs[i]["obs"], again, c))
            d, p = describe(c)
            want = {"INF": "+inf", "VALUE": "%.15g (linear form %s)" % (exp, c["lin"]), "FREE": "anything but NaN"}[c["req"]]
            r.violation("%s:%s:%s:%s" % (cls, name, d, p),
                        "%s negloglike, data %s, model function %s [%s]: %s %r, the property requires %s; clauses %s (%d observations fail this way)" % (
                            cls, d, "raises" if c["exc"] else "returns " + p, name,
                            "raised" if out[0] == "raised" else "returned", out[1], want, list(cl), len(ids)),
                        {"case": c, "realisation": name})
    nt = sum(1 for c in cases if nontrivial(c))
    by = {}
    for c in cases:
        by[c["cls"]] = by.get(c["cls"], 0) + 1
    r.add("cases", evaluations=len(obs), nontrivial=nt, traces=len(obs), model_cases=len(cases), per_class=by, objects=objs.n,
          required_inf=sum(1 for c in cases if c["req"] == "INF"), required_value=sum(1 for c in cases if c["req"] == "VALUE"),
          required_only_not_nan=sum(1 for c in cases if c["req"] == "FREE"),
          value_cases_with_log_terms=sum(1 for c in cases if c["req"] == "VALUE" and any(q[0] != 0 for q in c["lin"][1:])),
          observations_failing=len(failed))
    pick = [c for c in cases if c["req"] == "VALUE" and c["lin"][1][0] != 0 and c["lin"][2][0] != 0 and len(c["pred"]) == 3][:1] + \
           [c for c in cases if c["cls"] == "poisson" and c["why"] == ["value", "limit", "value"] and c["data"][1]["y"] > 0][:1] + \
           [c for c in cases if c["cls"] == "mock" and c["why"] == ["value", "stated"] and c["pred"][1]["k"] == "neg"][:1] + \
           [c for c in cases if c["exc"] and c["cls"] == "gauss" and len(c["data"]) == 2][:1]
    for c in pick:
        i = next(k for k, m in enumerate(meta) if cases[m[0]] is c)
        d, p = describe(c)
        r.sample({"class": c["cls"], "data": d, "model_function": "raises" if c["exc"] else "returns " + p, "table": c["why"],
                  "required": c["req"] if c["req"] != "VALUE" else "q0 + q1 ln2 + q2 ln3 + q3 ln(2pi), q = %s = %.15g" % (
                      ["%d/%d" % tuple(q) for q in c["lin"]], meta[i][5]),
                  "returned": repr(meta[i][4][1]), "observed": obs[i]["obs"] + (" (matches)" if obs[i]["matches"] else "")})
    r.cov["rule"] = ("every case of Like.tla (configurations %s): class x multiset of data points (y, sigma) x every sequence of model-function "
                     "values over {finite values, NaN, +Inf, -Inf, complex}, plus a model function that raises; each presented to the real class as an "
                     "ndarray-returning closure (and as scalar-returning ones when the values are all equal, and, for finite values, as one whose intermediates underflow and overflow; %d exception type(s), %d complex "
                     "realisation(s)); TLC (LikeJudge) decides never_nan / inf_exactly_when_required / value / returns from the projected result. "
                     "non-trivial = model cases with at least one non-ordinary value (table entry 'stated' or 'limit'), a raising model function, "
                     "or a non-zero coefficient of ln 2, ln 3 or ln(2 pi) in the required value" % (
                         ", ".join("%s: length <= %d" % (tag, cfg["MaxLen"]) for tag, cfg in t["configs"]), len(t["exceptions"]), len(t["cplx"])))
    r.assumptions += ["data finite, sigma > 0; data, sigmas and Poisson predictions are 3-smooth integers / ratios and H^2 values perfect squares, "
                      "so the required value is exact in the span {1, ln 2, ln 3, ln 2 pi}: the four formulas are decided on that alphabet",
                      "P3: double-precision evaluation of the rational linear form, compared at 1e-9 relative (floor 1)",
                      "the classes see the model function only through the values it returns, so a closure returning prescribed values stands for "
                      "every (function, parameter vector)",
                      "CCLikelihood reads a fixed shipped file: the real CCLikelihood() object is constructed and its xvar/yvar/yerr/inv_cov are replaced by "
                      "those MockLikelihood read from the case's file (realisations 'cc:...'), so CCLikelihood.get_pred/negloglike run on every mock case",
                      "a raising model function is decided (+inf) only for the classes using Likelihood.get_pred; for Mock the property states no result",
                      "complex = non-zero imaginary part (1+1j, 2j); a complex-typed prediction with zero imaginary parts is not in the alphabet"]
    return r.finish(exhaustive=not replay)
