"""C20 Fitting a single tree agrees with the library pipeline and the closed form."""
import contextlib, io, json, math, os, random, shutil
import numpy as np
from harness import scratch, tlc, evidence, coord, bases, lib, libproj, p1, wls, pool
from checks import common
from checks.c04 import classes, model_trees, run_pipeline, nll_of_string

PID = "C20"
INF, NAN = 100000, -1


def single_batch(jobs_path, out_path):
    """runs inside a worker: single_function / fit_from_string for a list of trees on one data set"""
    import numpy as np
    from harness import targets
    import esr.fitting.fit_single as fs
    jobs = json.load(open(jobs_path))
    out = []
    for j in jobs:
        like = targets.make_like("gauss", "d.txt", "single", j["data_dir"], j["fn_set"])
        rec = {"id": j["id"]}
        np.random.seed(j["seed"])
        try:
            with contextlib.redirect_stdout(io.StringIO()):
                nll, dl, params = fs.single_function(list(j["labels"]), j["basis"], like, pmin=0, pmax=3, Niter=40, Nconv=5, return_params=True,
                                                     log_opt=bool(j.get("log_opt", False)))
            rec.update(nll=float(nll), dl=float(dl), params=[float(v) for v in params])
        except Exception as e:
            rec["raised"] = "%s: %s" % (type(e).__name__, e)
        np.random.seed(j["seed"] + 1)
        try:
            with contextlib.redirect_stdout(io.StringIO()):
                nll2, dl2, labels2, params2 = fs.fit_from_string(j["infix"], j["basis"], like, pmin=0, pmax=3, Niter=40, Nconv=5, return_params=True)
            rec.update(s_nll=float(nll2), s_dl=float(dl2), s_labels=list(labels2), s_params=[float(v) for v in params2])
        except Exception as e:
            rec["s_raised"] = "%s: %s" % (type(e).__name__, e)
        out.append(rec)
    json.dump(out, open(out_path, "w"))


def run(tier, replay=None):
    r = evidence.Run(PID, tier, "model_checking")
    rng = random.Random(evidence.seed())
    s = scratch.make()
    scratch.activate(s)
    plans = [("core_maths", 3, 2), ("core_maths", 4, 1)] if tier == "quick" else [("core_maths", 3, 3), ("core_maths", 4, 3), ("core_maths", 5, 2), ("ext_maths", 3, 2)]
    cases, meta = [], []
    for name, n, ndata in plans:
        basis = bases.SHIPPED[name]
        L, _ = common.gen_library(r, s, name, n)
        if L is None:
            continue
        model = model_trees(r, basis, n)
        lin = [i for i, t in enumerate(L.orig_trees) if model.get(tuple(t), {}).get("lin") == "lin"]
        x = np.linspace(0.6, 3.0, 24)
        for di in range(ndata):
            nrng = np.random.RandomState(evidence.seed() * 10 + di + n)
            # the second data set has a negligible intercept: trees with an additive parameter get it snapped to zero
            truth = {0: lambda x: 2.0 * x + 0.004, 1: lambda x: 1.7 * x - 0.8, 2: lambda x: 2.4 / x + 0.5}[di % 3]
            sig0 = 0.1
            # error bars that differ from point to point, rows in no particular order (the likelihood is a sum over the points)
            sig = sig0 * (0.7 + 0.6 * ((np.arange(len(x)) * 7) % 11) / 10.0)
            y = truth(x) + sig * nrng.standard_normal(len(x))
            order = nrng.permutation(len(x))
            x, y, sig = x[order], y[order], sig[order]
            dd = os.path.join(s, "c20_%s_%d_%d" % (name, n, di))
            os.makedirs(dd)
            np.savetxt(os.path.join(dd, "d.txt"), np.transpose([x, y, sig]))
            res = run_pipeline(s, name, n, dd, seed=evidence.seed())
            if res["status"] != "ok":
                r.violation("pipeline:%s:n%d" % (name, n), "pipeline did not complete: %s %s" % (res["status"], res["detail"][:300]), {})
                continue
            cm = [l.split() for l in open(os.path.join(dd, "fitting", "output", "output_r", "codelen_matches_comp%d.dat" % n)).read().splitlines()]
            jobs = []
            chosen = lin if tier == "thorough" or len(lin) <= 12 else rng.sample(lin, 12)
            closed = {}
            for i in chosen:
                t = L.orig_trees[i]
                try:
                    lo, hi, info = wls.description_lengths(t, x, y, sig, libproj.code_value(model[tuple(t)]["code"]))
                except wls.NotLinear:
                    continue
                closed[i] = (lo, hi, info)
                jobs.append({"id": i, "labels": t, "infix": model[tuple(t)]["infix"], "basis": basis, "data_dir": dd, "fn_set": name, "seed": evidence.seed() + i})
            args = []
            for k, ch in enumerate(pool.chunk(jobs, 6)):
                jp, op = os.path.join(s, "c20_j%d.json" % k), os.path.join(s, "c20_o%d.json" % k)
                json.dump(ch, open(jp, "w"))
                args.append((jp, op))
            outs = pool.parallel("checks.c20:single_batch", args, s, timeout=3000)
            got = {}
            for (rc, tail), a in zip(outs, args):
                if rc != 0:
                    raise RuntimeError("single-fit worker failed: " + tail[-800:])
                for o in json.load(open(a[1])):
                    got[o["id"]] = o
            for i, (lo, hi, info) in closed.items():
                o, t = got[i], L.orig_trees[i]
                key = "%s:n%d:d%d:%s" % (name, n, di, "_".join(t))
                if "raised" in o:
                    r.violation("raised:" + key, "single_function(%s) raised %s" % (t, o["raised"]), {"labels": t})
                    continue
                tcode = libproj.code_value(model[tuple(t)]["code"])
                k = info["k"]
                th = o["params"][:k]
                kept = [j for j in range(k) if th[j] != 0.0]
                plen_ret = o["dl"] - o["nll"] - tcode
                plen_cf = wls.codelen(th, info.get("Idiag", []), kept) if kept else 0.0
                sum_ok = math.isfinite(o["dl"]) and abs(plen_ret - plen_cf) <= 2e-5 * max(1.0, abs(plen_cf))
                fstr = L.all_eq[i]
                try:
                    at = nll_of_string(fstr, th + [0.0] * (4 - len(th)), x, y, sig)
                    params_ok = abs(at - o["nll"]) <= 1e-9 * max(1.0, abs(at))
                except Exception:
                    at, params_ok = None, False
                pipe_nll, pipe_plen = float(cm[i][0]), float(cm[i][1])
                pipe_dl = pipe_nll + pipe_plen + L.aifeyn[i]
                has_pipe = math.isfinite(pipe_dl)
                tie = (hi - lo) > 1e-9
                vals = {"nllS": o["nll"], "nllC": info["nll"] if not kept or len(kept) == k else o["nll"], "dlS": o["dl"], "dlC": hi}
                # closed-form -log L at the reported (possibly snapped) parameters: recompute for snapped ones
                if len(kept) != k:
                    ft = wls.fit(t, x, y, sig)
                    t2 = np.array([0.0 if j not in kept else ft["theta"][j] for j in range(k)])
                    vals["nllC"] = wls.gauss_nll(ft["phi0"] + ft["Phi"] @ t2, y, sig)
                if has_pipe:
                    vals["nllP"], vals["dlP"] = pipe_nll, pipe_dl
                cl = classes(vals, lambda m: max(2e-3, 2e-6 * m))
                rec = {"id": len(cases), "kind": "single", "sumOK": bool(sum_ok), "paramsOK": bool(params_ok), "hasPipe": bool(has_pipe), "tie": bool(tie),
                       "nllSingle": cl["nllS"], "nllClosed": cl["nllC"], "dlSingle": cl["dlS"], "dlClosed": cl["dlC"],
                       "nllPipe": cl.get("nllP", NAN), "dlPipe": cl.get("dlP", NAN)}
                cases.append(rec)
                meta.append((key, "tree %s: single API nll %.6f DL %.6f params %s | pipeline row nll %.6f DL %.6f | closed form nll %.6f DL in [%.6f, %.6f]; code length returned %.6f closed form %.6f; L(returned params) %s" % (
                    t, o["nll"], o["dl"], th, pipe_nll, pipe_dl, vals["nllC"], lo, hi, plen_ret, plen_cf, at), {"labels": t, "single": o}))
                # the string entry point: same function -> same -log L; same labels -> same DL
                if "s_raised" in o:
                    r.violation("raised_string:" + key, "fit_from_string(%r) raised %s" % (model[tuple(t)]["infix"], o["s_raised"]), {"labels": t})
                else:
                    v2 = {"a": o["nll"], "b": o["s_nll"], "c": o["dl"], "d": o["s_dl"]}
                    c2 = classes(v2, lambda m: max(2e-3, 2e-6 * m))
                    same_len = len(o["s_labels"]) == len(t)
                    rec2 = {"id": len(cases), "kind": "single", "sumOK": True, "paramsOK": True, "hasPipe": True, "tie": bool(tie) or not same_len or sorted(o["s_labels"]) != sorted(t),
                            "nllSingle": c2["b"], "nllClosed": c2["b"], "dlSingle": c2["d"], "dlClosed": c2["d"], "nllPipe": c2["a"], "dlPipe": c2["c"]}
                    cases.append(rec2)
                    meta.append((key + ":string", "formula string entry point %r -> labels %s nll %.6f DL %.6f vs labels entry point nll %.6f DL %.6f" % (
                        model[tuple(t)]["infix"], o["s_labels"], o["s_nll"], o["s_dl"], o["nll"], o["dl"]), {"labels": t, "single": o}))
            # formulas with numeric literals next to parameters: the string entry point must fit exactly the formula's parameters
            lit = [("a0 + 3*x", ["+", "a0", "*", "3", "x"]), ("a0*x - 2", ["-", "*", "a0", "x", "2"]), ("2*x + a0/x", ["+", "*", "2", "x", "/", "a0", "x"]),
                   ("a0*x + a1/x + 2", ["+", "+", "*", "a0", "x", "/", "a1", "x", "2"]),
                   ("a0/x**2 + a1", ["+", "/", "a0", "pow", "x", "2", "a1"]), ("a0*pow(x,-2) - 3", ["-", "*", "a0", "pow", "x", "-2", "3"]),
                   ("a0/(x*(x+1))", ["/", "a0", "*", "x", "+", "x", "1"]), ("(a0-x)/x", ["/", "-", "a0", "x", "x"])]
            ljobs = [{"id": 1000 + q, "labels": lab, "infix": f, "basis": basis, "data_dir": dd, "fn_set": name, "seed": evidence.seed() + q} for q, (f, lab) in enumerate(lit)]
            jp, op = os.path.join(s, "c20_lit.json"), os.path.join(s, "c20_lit_out.json")
            json.dump(ljobs, open(jp, "w"))
            lo_ = pool.parallel("checks.c20:single_batch", [(jp, op)], s, timeout=3000)
            if lo_[0][0] != 0:
                raise RuntimeError("single-fit worker failed: " + lo_[0][1][-800:])
            louts = json.load(open(op))
            # the labels entry point on trees with (negative) integer constants: returned DL = likelihood + parameter code + Trees!Code
            ilabs = [["a0"], ["-", "a0", "inv", "+", "x", "x"], ["*", "a0", "pow", "x", "-2"], ["+", "*", "a0", "x", "-2"], ["+", "*", "a0", "pow", "x", "-3", "a1"], ["/", "a0", "pow", "x", "2"], ["+", "*", "a0", "x", "3"]]
            # trees in which a parameter cancels (library trees of complexity 7: the pipeline fits the simplified function and charges the tree's own
            # code): [labels, labels of the function that is left]; the closed form is that of the reduced function
            cancel = {("+", "*", "a0", "x", "-", "a1", "a1"): ["*", "a0", "x"], ("+", "-", "a0", "a0", "*", "a1", "x"): ["*", "a0", "x"],
                      ("+", "-", "a0", "a0", "+", "a1", "*", "a2", "x"): ["+", "a0", "*", "a1", "x"]}
            ilabs += [list(k_) for k_ in cancel]
            ilabs = [l for l in ilabs if all(t in sum(basis, []) or t in ("x",) or t.startswith("a") or t.lstrip("-").isdigit() for t in l)]
            # the same entry point with the optimiser in log space (one and two parameters: sign branches), incl. parameters of opposite signs
            logopt = [["+", "a0", "*", "a1", "x"], ["+", "*", "a0", "x", "a1"], ["*", "a0", "x"], ["-", "*", "a0", "x", "a1"]]
            nlin = len(ilabs)
            ilabs += logopt
            ijobs = [{"id": 2000 + q, "labels": lab, "infix": "x", "basis": basis, "data_dir": dd, "fn_set": name, "seed": evidence.seed() + q, "log_opt": q >= nlin} for q, lab in enumerate(ilabs)]
            icodes = common.model_codes(r, ilabs, "codes_int_%s_%d_%d" % (name, n, di))
            jp2, op2 = os.path.join(s, "c20_int.json"), os.path.join(s, "c20_int_out.json")
            json.dump(ijobs, open(jp2, "w"))
            io_ = pool.parallel("checks.c20:single_batch", [(jp2, op2)], s, timeout=3000)
            if io_[0][0] != 0:
                raise RuntimeError("single-fit worker failed: " + io_[0][1][-800:])
            for o in json.load(open(op2)):
                lab = ilabs[o["id"] - 2000]
                key = "%s:n%d:d%d:intlabels:%s%s" % (name, n, di, "_".join(lab), ":log_opt" if o["id"] - 2000 >= nlin else "")
                if "raised" in o:
                    r.violation("raised:" + key, "single_function(%s) raised %s" % (lab, o["raised"]), {"labels": lab})
                    continue
                try:
                    ft = wls.fit(cancel.get(tuple(lab), lab), x, y, sig)
                except wls.NotLinear:
                    continue
                k_ = ft["k"]
                th = o["params"][:k_]
                if tuple(lab) in cancel and (any(v != 0.0 for v in o["params"][k_:]) or not (math.isfinite(o["nll"]) and math.isfinite(o["dl"]))):
                    r.violation(key + ":cancelled_parameter", "single_function(%s): the tree's function is %s (a parameter cancels), fitted nll %s DL %s params %s; the closed form of the remaining function is nll %.6f" % (
                        lab, cancel[tuple(lab)], o["nll"], o["dl"], o["params"], ft["nll"]), {"labels": lab, "single": o})
                    continue
                kept = [j for j in range(k_) if th[j] != 0.0]
                tcode = libproj.code_value(icodes[o["id"] - 2000])
                plen_cf = wls.codelen(th, np.diag(ft["I"]), kept) if kept else 0.0
                sum_ok = math.isfinite(o["dl"]) and abs((o["dl"] - o["nll"] - tcode) - plen_cf) <= 2e-5 * max(1.0, abs(plen_cf))
                # closed form of the whole answer: likelihood at the (snapped) ML point, and the DL interval over threshold ties
                lo_dl, hi_dl, _info = wls.description_lengths(cancel.get(tuple(lab), lab), x, y, sig, tcode)
                t2 = np.array([0.0 if j not in kept else ft["theta"][j] for j in range(k_)])
                nll_cf = ft["nll"] if len(kept) == k_ else wls.gauss_nll(ft["phi0"] + ft["Phi"] @ t2, y, sig)
                c3 = classes({"s": o["nll"], "c": nll_cf, "dS": o["dl"], "dC": hi_dl}, lambda m: max(2e-3, 2e-6 * m))
                if o["id"] - 2000 >= nlin:
                    # log-space optimisation with single_function's few restarts (Niter 40, Nconv 5) misses the optimum of a well-posed two-parameter
                    # fit for about one seed in twelve (measured on the unchanged tree; C10 judges the optimiser with the pipeline's restart budget):
                    # here only the exact-sum clause is demanded, and that the likelihood does not beat the closed-form minimum
                    beats = o["nll"] < ft["nll"] - max(2e-3, 2e-6 * abs(ft["nll"]))
                    c3 = dict(c3, c=c3["s"] if not beats else c3["c"])
                    hi_dl, lo_dl = hi_dl + 1.0, lo_dl          # tie: the DL comparison is waived
                cases.append({"id": len(cases), "kind": "single", "sumOK": bool(sum_ok), "paramsOK": True, "hasPipe": False, "tie": bool(hi_dl - lo_dl > 1e-9),
                              "nllSingle": c3["s"], "nllClosed": c3["c"], "dlSingle": c3["dS"], "dlClosed": c3["dC"], "nllPipe": NAN, "dlPipe": NAN})
                meta.append((key, "labels %s: nll %.6f (closed form %.6f) DL %.6f (closed form in [%.6f, %.6f]) params %s; DL - nll - tree code %.6f (Trees!Code %s) = %.6f, closed-form parameter code %.6f" % (
                    lab, o["nll"], nll_cf, o["dl"], lo_dl, hi_dl, th, tcode, icodes[o["id"] - 2000], o["dl"] - o["nll"] - tcode, plen_cf), {"labels": lab, "single": o}))
            for o in louts:
                f, lab = lit[o["id"] - 1000]
                key = "%s:n%d:d%d:literal:%s" % (name, n, di, f)
                if "s_raised" in o:
                    r.violation("raised_string:" + key, "fit_from_string(%r) raised %s" % (f, o["s_raised"]), {"formula": f})
                    continue
                ft = wls.fit(lab, x, y, sig)
                kfit = sum(1 for l in o["s_labels"] if l.startswith("a") and l[1:].isdigit())
                c2 = classes({"s": o["s_nll"], "c": ft["nll"]}, lambda m: max(2e-3, 2e-6 * m))
                try:
                    at = wls.gauss_nll(p1.tree_values(o["s_labels"], x=x, a=[np.full_like(x, v) for v in (o["s_params"] + [0, 0, 0, 0])[:4]])[0], y, sig)
                except Exception:
                    at = float("nan")
                snapped = any(v == 0.0 for v in o["s_params"][:ft["k"]])
                rec = {"id": len(cases), "kind": "single", "sumOK": True, "paramsOK": bool(abs(at - o["s_nll"]) <= 1e-9 * max(1.0, abs(at))), "hasPipe": False, "tie": True,
                       "nllSingle": c2["s"], "nllClosed": c2["s"] if snapped else c2["c"], "dlSingle": 0, "dlClosed": 0, "nllPipe": NAN, "dlPipe": NAN}
                cases.append(rec)
                meta.append((key, "formula %r: fitted labels %s (%d distinct parameters, the formula has %d), nll %.6f, closed form for the formula %.6f, L(returned params on returned labels) %.6f" % (
                    f, o["s_labels"], len({l for l in o["s_labels"] if l.startswith("a") and l[1:].isdigit()}), ft["k"], o["s_nll"], ft["nll"], at), {"formula": f, "single": o}))
            r.add("datasets", evaluations=1, nontrivial=1, traces=1, **{"%s_n%d_d%d" % (name, n, di): dict(linear_trees=len(closed))})
            if closed:
                i = sorted(closed)[0]
                r.sample({"library": name, "n": n, "tree": L.orig_trees[i], "single": {k: got[i].get(k) for k in ("nll", "dl", "params")}, "closed_form_dl": closed[i][:2],
                          "pipeline_row": cm[i][:3]}, limit=4)
            shutil.rmtree(dd, ignore_errors=True)
    jres, failed = tlc.judge("ESRJudge", cases, heap="8g")
    r.add_tlc(jres, "esr_judge_single")
    for i, cl in sorted(failed.items()):
        key, text, rp = meta[i]
        r.violation(key + ":" + ",".join(cl), "%s violated: %s" % (cl, text), rp)
    r.add("single_fits", evaluations=len(cases), nontrivial=len(cases), traces=len(cases))
    r.cov["rule"] = ("every original tree of the library that Trees!LinClass accepts (sampled to 12 per data set in the quick tier) is fitted through single_function and through "
                     "fit_from_string on Trees!Infix of the same tree; the three sources (single API, the tree's own row of codelen_matches + aifeyn of a pipeline run on the same data, "
                     "closed form P5 + Snap + Trees!Code) are projected to P2 order classes (tolerance 2e-3) and judged by ESRJudge.tla; the returned DL minus likelihood minus tree "
                     "code must equal the closed-form parameter code at the returned parameters (2e-5)")
    r.assumptions += ["BFGS convergence on linear families (C10)", "parameters within 2% of the snapping threshold: DL comparison waived (either side admissible)"]
    return r.finish(exhaustive=False)
