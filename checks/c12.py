"""C12 Printing an expression and reading it back gives the same function; printing is a pure function.

spec/Expr.tla holds the grammar of "expressions of the kind ESR produces" (with the syntactic
predicate NonNeg for the arguments of non-integer powers / sqrt / log), the law over P1 classes
and the generator.  TLC enumerates every term up to depth 2 and draws deeper ones with -simulate;
each term is built as a sympy object the way ESR builds its own, printed by the real ESRPrinter,
read back by the two real symbol tables (p1.parse_gen, p1.parse_fit) and P1-classified against the
values of the original object (sympy's lambdify: independent of printer and parsers); TLC
(spec/ExprJudge.tla) recomputes the grammar predicate from the term and decides every clause."""
import collections, contextlib, io, json, multiprocessing, os, subprocess, sys, time
from harness import scratch, tlc, evidence, exprbuild

PID = "C12"
CLAUSES = ("term_well_formed", "generation_reading", "fitting_reading", "deterministic", "deterministic_across_processes")


def _set(xs):
    return "{" + ", ".join('"%s"' % x for x in xs) + "}"


INT_EXPS = ["2", "3", "-1", "-2"]
REAL_EXPS = ["1/2", "3/2", "-1/2", "a0"]
ALPHABET = {
    # exhaustive to depth 2: 53 621 terms
    "quick": dict(Params=_set(["a0", "a1"]), NumLeaves=_set(["2", "-3/2"]), IntExps=_set(INT_EXPS), RealExps=_set(REAL_EXPS)),
    # exhaustive to depth 2: 366 801 terms
    "thorough": dict(Params=_set(["a0", "a1", "a2"]), NumLeaves=_set(["2", "-1", "3", "1/2", "-3/2"]), IntExps=_set(INT_EXPS),
                     RealExps=_set(REAL_EXPS)),
}
SIM = {"quick": dict(num=400, maxdepth=4), "thorough": dict(num=6000, maxdepth=5)}
JUDGE_CONSTS = dict(Params="{}", NumLeaves="{}", IntExps="{}", RealExps="{}", MaxDepth="0", SibDepth="0")


# ----------------------------------------------------------------------------- one term (runs in pool workers)
_EXPR_CACHE = {}     # sympy expr -> (string, verdict) : memo of a pure function of the expression
_PARSE_CACHE = {}    # (reading, string) -> (expr or None, values or None, info) : pure function of the string


_SHARED = []         # one long-lived printer per worker, reused over the whole stream of terms (as the simplifier reuses its printer)


def _print(expr, shared=False):
    from esr.generation.custom_printer import ESRPrinter
    if shared and not _SHARED:
        _SHARED.append(ESRPrinter())
    with contextlib.redirect_stdout(io.StringIO()):        # the printer has stray print() calls on one path
        return (_SHARED[0] if shared else ESRPrinter()).doprint(expr)


def _reading(which, s):
    from harness import p1, libproj
    key = (which, s)
    if key not in _PARSE_CACHE:
        parser = p1.parse_gen if which == "gen" else p1.parse_fit
        try:
            with contextlib.redirect_stdout(io.StringIO()):
                pe = parser(s)
        except Exception as ex:
            _PARSE_CACHE[key] = (None, None, "string does not parse: %r" % (ex,))
            return _PARSE_CACHE[key]
        try:
            v = libproj.values(pe)
        except Exception as ex:
            _PARSE_CACHE[key] = (pe, None, "parsed expression %s is not evaluable: %r" % (pe, ex))
            return _PARSE_CACHE[key]
        _PARSE_CACHE[key] = (pe, v, "")
    return _PARSE_CACHE[key]


def _classify(expr, s):
    """P1: (decided?, {gen,fit: 1 same / 0 different / -1 undecided}, info, min of the reference)"""
    import numpy as np
    from harness import p1, libproj
    ref = libproj.values(expr)
    good = libproj.finite_mask(ref)
    ref = np.real(ref)
    out = {"decided": bool(good.sum() >= 3), "gen": -1, "fit": -1, "info": {},
           "refmin": float(ref[good].min()) if good.any() else None}
    if not out["decided"]:
        return out
    for which in ("gen", "fit"):
        pe, v, info = _reading(which, s)
        if v is None:
            out[which], out["info"][which] = 0, info
            continue
        same, why = p1.compare(ref, good, v, lambda idx: libproj.values_hp(expr, idx), lambda idx, pe=pe: libproj.values_hp(pe, idx))
        out[which] = -1 if same is None else int(bool(same))
        if same is False:
            out["info"][which] = "reads as %s: %s" % (pe, why)
    return out


def evaluate(term):
    """everything the harness observes about one term"""
    try:
        e1 = exprbuild.build(term)
    except exprbuild.BadTerm as ex:
        return {"status": "bad_term", "info": str(ex)}
    if exprbuild.nowhere_defined(e1):
        return {"status": "skipped"}
    rec = {"status": "ok", "expr": str(e1)}
    try:
        s1 = _print(e1)
        s2 = _print(exprbuild.build(term), shared=True)     # built again (then freed), printed by the long-lived printer
    except Exception as ex:
        rec.update(status="print_crash", info="ESRPrinter().doprint(%s) raised %r" % (e1, ex))
        return rec
    rec["s1"], rec["s2"] = s1, s2
    hit = _EXPR_CACHE.get(e1)
    if hit is None or hit[0] != s1:
        hit = (s1, _classify(e1, s1))
        _EXPR_CACHE[e1] = hit
    rec.update(hit[1])
    return rec


def _work(chunk):
    return [(k, evaluate(term)) for k, term in chunk]


def _warm():
    """imports done once in the parent so that forked workers share them"""
    import sympy, numpy
    from harness import p1, libproj
    from esr.generation.custom_printer import ESRPrinter
    p1.parse_gen("x")
    p1.parse_fit("x")


def evaluate_all(terms, workers):
    chunks = [[(k, terms[k]) for k in range(i, min(i + 300, len(terms)))] for i in range(0, len(terms), 300)]
    out = [None] * len(terms)
    if workers <= 1 or len(terms) < 600:
        for c in chunks:
            for k, rec in _work(c):
                out[k] = rec
        return out
    ctx = multiprocessing.get_context("fork")
    with ctx.Pool(workers) as pool:
        for res in pool.imap_unordered(_work, chunks):
            for k, rec in res:
                out[k] = rec
    return out


# ----------------------------------------------------------------------------- TLC side
def _sim_counts(res, nterms):
    import re
    m = re.search(r"The number of states generated: (\d+)", res["out"])
    res = dict(res)
    res["generated"] = int(m.group(1)) if m else 0
    res["distinct"] = nterms
    return res


def generate(r, tier):
    """[(part, term, depth, nn)] : exhaustive to depth 2, then random deeper terms"""
    consts = dict(ALPHABET[tier], MaxDepth="2", SibDepth="1")
    res = tlc.must(tlc.run("Expr", "Expr_enum.cfg", constants=consts, workers=4, heap="8g"), "Expr enumeration")
    if res["violated"]:
        raise tlc.TLCError("Expr.tla: generator invariant violated %s\n%s" % (res["violated"], res["out"][-2000:]))
    r.add_tlc(res, "enumerate_depth2")
    if len(res["json"]) != res["distinct"]:
        raise tlc.TLCError("Expr enumeration: %d terms printed, %d distinct states" % (len(res["json"]), res["distinct"]))
    seen, out = set(), []
    for j in res["json"]:
        key = json.dumps(j["t"], sort_keys=True)
        if key in seen:
            raise tlc.TLCError("Expr enumeration printed a term twice: %s" % key)
        seen.add(key)
        out.append(("enumerate", j["t"], j["d"], j["nn"]))
    n_enum = len(out)
    sim = SIM[tier]
    consts = dict(ALPHABET["thorough"], MaxDepth=str(sim["maxdepth"]), SibDepth="1")
    res = tlc.must(tlc.run("Expr", "Expr_sim.cfg", constants=consts, workers=1, heap="4g", simulate="num=%d" % sim["num"],
                           depth=2 * sim["maxdepth"], seed=evidence.seed()), "Expr simulation")
    if res["violated"]:
        raise tlc.TLCError("Expr.tla: generator invariant violated in simulation %s\n%s" % (res["violated"], res["out"][-2000:]))
    for j in res["json"]:
        key = json.dumps(j["t"], sort_keys=True)
        if key not in seen:
            seen.add(key)
            out.append(("simulate", j["t"], j["d"], j["nn"]))
    r.add_tlc(_sim_counts(res, len(out) - n_enum), "simulate_depth%d" % sim["maxdepth"])
    # nested sums in bracket-needing positions (Expr!NestSpec, depth 4): all of them in the thorough tier, a seeded sample in the quick tier
    import random
    consts = dict(ALPHABET["quick"], MaxDepth="4", SibDepth="1")
    res = tlc.must(tlc.run("Expr", "Expr_nest.cfg", constants=consts, workers=4, heap="8g"), "Expr nested sums")
    if res["violated"]:
        raise tlc.TLCError("Expr.tla: nested-sum family violates %s\n%s" % (res["violated"], res["out"][-2000:]))
    r.add_tlc(res, "nested_sums_depth4")
    nest = res["json"]
    if tier == "quick":
        nest = random.Random(evidence.seed()).sample(nest, min(len(nest), 15000))
        r.cov.setdefault("sampled", {})["nested_sums"] = [len(nest), len(res["json"])]
    for j in nest:
        key = json.dumps(j["t"], sort_keys=True)
        if key not in seen:
            seen.add(key)
            out.append(("nested", j["t"], j["d"], j["nn"]))
    return out


def judge(r, cases, part="judge"):
    """TLC decides; batches run side by side"""
    from concurrent.futures import ThreadPoolExecutor
    size = 40000
    batches = [cases[i:i + size] for i in range(0, len(cases), size)]
    with ThreadPoolExecutor(max_workers=4) as ex:
        results = list(ex.map(lambda b: tlc.judge("ExprJudge", b, constants=JUDGE_CONSTS, heap="6g"), batches))
    failed, n_in = {}, 0
    tot = {"distinct": 0, "generated": 0, "depth": 0, "wall_s": 0.0}
    for res, f in results:
        failed.update(f)
        n_in += sum(j["inGrammar"] for j in res["json"] if isinstance(j, dict) and "judged" in j)
        for k in ("distinct", "generated"):
            tot[k] += res[k]
        tot["depth"] = max(tot["depth"], res["depth"])
        tot["wall_s"] += res["wall_s"]
    r.add_tlc(tot, part)
    return failed, n_in


def selftest(r, cases):
    """binding self-test: corrupted records must be rejected, and the law must not be demanded outside the grammar"""
    import copy
    good = [c for c in cases if c["clsOrig"] >= 0 and c["clsGen"] == c["clsOrig"] and c["clsFit"] == c["clsOrig"]]
    if not good:
        raise tlc.TLCError("binding self-test: no decided case to corrupt")
    base = good[len(good) // 2]
    muts, expect = [], {}

    def add(c, clauses):
        c = copy.deepcopy(c)
        c["id"] = len(muts)
        muts.append(c)
        expect[c["id"]] = sorted(clauses)
    add(base, [])
    c = copy.deepcopy(base); c["clsGen"] += 1; add(c, ["generation_reading"])
    c = copy.deepcopy(base); c["clsFit"] += 1; add(c, ["fitting_reading"])
    c = copy.deepcopy(base); c["sids"] = [c["sids"][0], c["sids"][0] + 1, c["sids"][0]]; add(c, ["deterministic"])
    c = copy.deepcopy(base); c["sids"] = [c["sids"][0], c["sids"][0], c["sids"][0] + 1]; add(c, ["deterministic_across_processes"])
    c = copy.deepcopy(base); c["clsGen"] = -1; c["clsFit"] = -1; add(c, [])                               # undecided: nothing demanded
    leaf = lambda tk: {"o": tk, "a": []}
    outside = [{"o": "sqrt", "a": [leaf("a0")]},                                                            # sqrt of a parameter
               {"o": "log", "a": [{"o": "Add", "a": [leaf("x"), {"o": "Neg", "a": [leaf("a1")]}]}]},       # log(x - a1)
               {"o": "Pow", "a": [{"o": "Pow", "a": [leaf("a0"), leaf("3")]}, leaf("1/2")]},                # (a0^3)^(1/2)
               {"o": "Pow", "a": [{"o": "sin", "a": [leaf("x")]}, leaf("a0")]}]                             # sin(x)^a0
    for tm in outside:
        c = copy.deepcopy(base); c["term"] = tm; c["clsGen"] += 1; c["clsFit"] += 1; add(c, [])          # outside the grammar: law not demanded
    inside = [{"o": "Pow", "a": [{"o": "Pow", "a": [leaf("a0"), leaf("-2")]}, leaf("-1/2")]},               # (a0^-2)^(-1/2)
              {"o": "log", "a": [{"o": "Add", "a": [leaf("x"), {"o": "Abs", "a": [leaf("a1")]}]}]}]
    for tm in inside:
        c = copy.deepcopy(base); c["term"] = tm; c["clsFit"] += 1; add(c, ["fitting_reading"])
    c = copy.deepcopy(base); c["term"] = {"o": "sqr", "a": [leaf("x")]}; add(c, ["term_well_formed"])
    c = copy.deepcopy(base); c["term"] = {"o": "Pow", "a": [leaf("x"), {"o": "Neg", "a": [leaf("2")]}]}; add(c, ["term_well_formed"])
    res, failed = tlc.judge("ExprJudge", muts, constants=JUDGE_CONSTS)
    for k, want in expect.items():
        got = sorted(failed.get(k, []))
        if got != want:
            raise tlc.TLCError("binding self-test: record %s judged %s, expected %s" % (json.dumps(muts[k]), got, want))
    n_in = [j["inGrammar"] for j in res["json"] if isinstance(j, dict) and "judged" in j][0]
    if n_in != 6 + len(inside):
        raise tlc.TLCError("binding self-test: %d records judged in grammar, expected %d" % (n_in, 6 + len(inside)))
    # the P1 pipeline must tell different functions apart: a string read against the values of another expression
    probes = [("Add(x,a0) vs 'x - a0'", {"o": "Add", "a": [leaf("x"), leaf("a0")]}, "x - a0"),
              ("Pow(Add(x,Abs(a0)),3/2) vs 'pow(x,3/2) + Abs(a0)'", {"o": "Pow", "a": [{"o": "Add", "a": [leaf("x"), {"o": "Abs", "a": [leaf("a0")]}]}, leaf("3/2")]},
               "pow(x,3/2) + Abs(a0)"),
              ("Div(x,Add(x,a1)) vs 'x/x + a1'", {"o": "Div", "a": [leaf("x"), {"o": "Add", "a": [leaf("x"), leaf("a1")]}]}, "x/x + a1")]
    for name, tm, wrong in probes:
        v = _classify(exprbuild.build(tm), wrong)
        right = _classify(exprbuild.build(tm), _print(exprbuild.build(tm)))
        if not (v["decided"] and v["gen"] == 0 and v["fit"] == 0 and right["gen"] == 1 and right["fit"] == 1):
            raise tlc.TLCError("binding self-test: P1 pipeline did not separate %s (%s / %s)" % (name, v, right))
    r.add("selftest", evaluations=len(muts) + len(probes), corrupted_records_rejected=sum(1 for w in expect.values() if w),
          records_outside_grammar_not_demanded=len(outside), p1_probes_separated=len(probes))


# ----------------------------------------------------------------------------- confirmation in a fresh process
def confirm(s, term):
    """rule 2 of DESIGN.md section 7: the single failing term is evaluated again in a fresh interpreter"""
    env = dict(os.environ)
    env["C12_SCRATCH"] = s
    p = subprocess.run([sys.executable, "-m", "checks.c12"], input=json.dumps(term).encode(), cwd=evidence.VERIF, env=env,
                       stdout=subprocess.PIPE, stderr=subprocess.PIPE, timeout=600)
    lines = [l for l in p.stdout.decode("utf8", "replace").splitlines() if l.startswith("C12REC ")]
    if p.returncode != 0 or not lines:
        raise RuntimeError("confirmation process failed: %s" % p.stderr.decode("utf8", "replace")[-2000:])
    return json.loads(lines[-1][7:])


def _failed_clauses(rec, sx):
    """which clauses a raw observation would fail (used only to compare a confirmation run with the judged verdict)"""
    out = set()
    if rec["status"] == "print_crash":
        return {"generation_reading", "fitting_reading"}
    if rec["status"] != "ok":
        return out
    if rec["decided"] and rec["gen"] == 0:
        out.add("generation_reading")
    if rec["decided"] and rec["fit"] == 0:
        out.add("fitting_reading")
    if rec["s1"] != rec["s2"]:
        out.add("deterministic")
    if sx is not None and sx != rec["s1"]:
        out.add("deterministic_across_processes")
    return out


# ----------------------------------------------------------------------------- the check
def nontrivial_string(st):
    return ("pow(" in st) or ("sqrt" in st) or ("/" in st) or ("-" in st)


def run(tier, replay=None):
    r = evidence.Run(PID, tier, "exploration")
    s = scratch.make()
    scratch.activate(s)
    _warm()
    workers = int(os.environ.get("VERIF_WORKERS", max(2, min(12, (os.cpu_count() or 4) - 4))))
    if replay:
        obj = json.load(open(replay))
        gen = [("replay", obj["replay"]["term"], -1, False)]
    else:
        gen = generate(r, tier)
    terms = [g[1] for g in gen]
    # fresh interpreters with other hash seeds print the whole batch while the pool works
    nfresh = 1 if len(terms) < 2000 else (4 if tier == "quick" else 6)
    h = exprbuild.start_fresh_processes(s, terms, [1 + 7 * k for k in range(nfresh)])
    try:
        recs = evaluate_all(terms, workers)
    finally:
        fresh = exprbuild.collect_fresh(h)
    # ---- records for the judge
    sid, cases, where = {}, [], {}
    counts = collections.Counter()
    nn_bad = []
    for k, (g, rec, sx) in enumerate(zip(gen, recs, fresh)):
        counts[rec["status"]] += 1
        if rec["status"] == "bad_term":
            raise tlc.TLCError("term of Expr.tla not understood by the harness: %s (%s)" % (json.dumps(g[1]), rec["info"]))
        if rec["status"] == "skipped":
            if sx is not None:
                raise RuntimeError("term %s nowhere defined here but printed %r in the fresh process" % (exprbuild.infix(g[1]), sx))
            continue
        cid = len(cases)
        if rec["status"] == "print_crash":
            c = {"id": cid, "term": g[1], "clsOrig": 2 * cid, "clsGen": 2 * cid + 1, "clsFit": 2 * cid + 1, "sids": [0, 0, 0]}
        else:
            if isinstance(sx, dict) or sx is None:
                sx = "<fresh process: %s>" % (sx,)
            ids = [sid.setdefault(st, len(sid) + 1) for st in (rec["s1"], rec["s2"], sx)]
            dec = rec["decided"]
            cls = lambda v: -1 if (not dec or v < 0) else (2 * cid if v == 1 else 2 * cid + 1)
            c = {"id": cid, "term": g[1], "clsOrig": 2 * cid if dec else -1, "clsGen": cls(rec["gen"]), "clsFit": cls(rec["fit"]), "sids": ids}
            counts["decided" if dec else "undecided"] += 1
            if g[3] and rec["refmin"] is not None and rec["refmin"] < -1e-9:
                nn_bad.append((exprbuild.infix(g[1]), rec["expr"], rec["refmin"]))
        cases.append(c)
        where[cid] = k
    if nn_bad:
        raise tlc.TLCError("Expr!NonNeg holds for terms whose reference value is negative (spec error): %s" % (nn_bad[:5],))
    failed, n_in = judge(r, cases)
    if n_in != len(cases) and not replay:
        raise tlc.TLCError("generator and judge disagree on the grammar: %d of %d generated terms judged in grammar" % (n_in, len(cases)))
    if not replay:
        selftest(r, cases)
    # ---- verdicts
    by_clause = collections.Counter(cl for f in failed.values() for cl in f)
    reported = collections.Counter()
    order = sorted(failed, key=lambda cid: (len(json.dumps(cases[cid]["term"])), cid))
    for cid in order:
        k = where[cid]
        term, rec, sx = gen[k][1], recs[k], fresh[k]
        cl = [c for c in failed[cid] if reported[c] < 6]
        if not cl:
            continue
        again = confirm(s, term)
        # two different strings for one expression inside one process are themselves the witness of impurity (a dependence on what the
        # long-lived printer printed before cannot reproduce for a single term in a fresh interpreter), so that clause needs no re-run
        still = _failed_clauses(again["rec"], again["fresh"]) | ({"term_well_formed", "deterministic"} & set(failed[cid]))
        for c in cl:
            reported[c] += 1
        if not (set(cl) & still):
            r.add("unconfirmed", evaluations=0, **{"case_%d" % cid: {"term": exprbuild.infix(term), "clauses": failed[cid]}})
            continue
        text = "Expr.tla clauses %s violated for %s = sympy %s: printed %r" % (
            sorted(set(failed[cid]) & still), exprbuild.infix(term), rec.get("expr"), rec.get("s1"))
        if rec["status"] == "print_crash":
            text += "; " + rec["info"]
        for which in ("gen", "fit"):
            if isinstance(rec.get("info"), dict) and which in rec["info"]:
                text += "; %s table: %s" % ({"gen": "generation-stage", "fit": "fitting-stage"}[which], rec["info"][which])
        if rec.get("s1") != rec.get("s2"):
            text += "; second print in the same process %r" % (rec.get("s2"),)
        if rec.get("s1") != sx:
            text += "; fresh process (other PYTHONHASHSEED) printed %r" % (sx,)
        text += " [%d term(s) fail this way in the run: %s]" % (len(failed), dict(by_clause))
        r.violation("roundtrip:%s" % exprbuild.infix(term), text, {"term": term, "clauses": failed[cid], "printed": rec.get("s1"), "sympy": rec.get("expr")})
    # ---- evidence
    ok = [(gen[where[c["id"]]], recs[where[c["id"]]]) for c in cases if recs[where[c["id"]]]["status"] == "ok"]
    strings = {rec["s1"] for g, rec in ok if rec["decided"]}
    nontriv = sum(1 for st in strings if nontrivial_string(st))
    feats = collections.Counter()
    for st in strings:
        for name, tok in (("pow(", "pow("), ("sqrt(", "sqrt("), ("log(", "log("), ("**", "**"), ("quotient", "/"), ("parenthesised denominator", "/("),
                          ("negative sign", "-"), ("Abs(", "Abs("), ("exp(", "exp("), ("sin(", "sin(")):
            if tok in st:
                feats[name] += 1
    for part in ("enumerate", "simulate", "nested", "replay"):
        sel = [(g, rec) for g, rec in ok if g[0] == part]
        if sel or part != "replay":
            r.add(part, evaluations=len(sel), nontrivial=0, traces=0,
                  terms=sum(1 for g in gen if g[0] == part), depth_histogram=dict(sorted(collections.Counter(g[2] for g in gen if g[0] == part).items())))
    r.add("roundtrip", evaluations=0, nontrivial=nontriv, distinct_expressions=len({rec["expr"] for g, rec in ok}),
          distinct_printed_strings=len({rec["s1"] for g, rec in ok}), decided=counts["decided"], undecided_fewer_than_3_finite_points=counts["undecided"],
          skipped_nowhere_defined=counts["skipped"], printer_crashes=counts["print_crash"], judged_in_grammar=n_in,
          strings_with_feature=dict(feats), fresh_processes=nfresh, failing_terms=len(failed), failing_by_clause=dict(by_clause))
    step = max(1, len(ok) // 5)
    for g, rec in ok[step - 1::step][:5]:
        r.sample({"term": exprbuild.infix(g[1]), "sympy": rec["expr"], "printed": rec["s1"], "depth": g[2], "from": g[0]})
    r.cov["rule"] = ("every term of Expr.tla's grammar up to depth 2 over the tier's alphabet (exhaustive, TLC BFS) plus the terms on %d random "
                     "walks of the generator to depth %d (TLC -simulate, seed VERIF_SEED) plus the nested sums in bracket-needing positions of Expr!NestSpec "
                     "(depth 4; seeded sample where 'sampled' says so): built as sympy objects (x positive, a_i real), printed by "
                     "ESRPrinter twice in-process and once in fresh interpreters with other PYTHONHASHSEEDs, the string read by sympy_locs and by "
                     "Likelihood.run_sympify, P1 class of each reading vs P1 class of the original object; ExprJudge.tla decides the clauses %s. "
                     "evaluations = terms judged (terms that sympy evaluates to zoo/nan are skipped); distinct_nontrivial = distinct printed strings of "
                     "decided terms that contain pow( , sqrt, a quotient '/' or a minus sign" % (SIM[tier]["num"], SIM[tier]["maxdepth"], list(CLAUSES)))
    r.assumptions += ["P1: agreement at 24 generic points (6 x > 0, 4 real parameter vectors), 50-digit re-evaluation on mismatch, decides equality of real functions",
                      "sympy.lambdify / evalf evaluate an already built expression correctly (reference values come from the original object, not from any string)",
                      "the verdict on each term is P1's; Expr.tla is the exhaustive generator, the grammar (NonNeg) and the law, ExprJudge.tla applies them",
                      "NonNeg is cross-checked numerically on every generated term (a NonNeg term with a negative reference value aborts the check with exit 2)"]
    return r.finish(exhaustive=False, extra={"exhaustive_part": "all terms of depth <= 2 over the alphabet %s" % ALPHABET[tier]})


if __name__ == "__main__":
    # confirmation mode: one term on stdin, scratch copy in $C12_SCRATCH
    scratch.activate(os.environ["C12_SCRATCH"])
    _term = json.loads(sys.stdin.read())
    _rec = evaluate(_term)
    _fresh = exprbuild.print_in_fresh_processes(os.environ["C12_SCRATCH"], [_term], [12345])[0]
    print("C12REC " + json.dumps({"rec": _rec, "fresh": _fresh}, default=str))
