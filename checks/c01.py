"""C01 Exhaustive, duplicate-free enumeration of expression trees.
Trees.tla (ShapeSpec, LabelSpec) model-checked; every state TLC ends in is replayed into
check_tree / get_allowed_shapes / generate_equations (binding A)."""
import io, os, sys, contextlib, itertools, re
from harness import scratch, tlc, evidence, bases, libio

PID = "C01"


def _shapes(run, g, np, n):
    res = tlc.must(tlc.run("Trees", "Trees_shape.cfg", constants=bases.tla_consts(bases.SHIPPED["core_maths"], n),
                           workers=1 if n < 7 else 12, timeout=5400, heap="8g"), "ShapeSpec n=%d" % n)
    run.add_tlc(res, "shape_n%d" % n)
    for v in res["violated"]:
        run.violation("model:%s:n%d" % (v, n), "Trees.tla invariant %s violated at n=%d (design of the placement machine/filter)" % (v, n))
    cases = res["json"]
    if len(cases) != 2 * 3 ** (n - 1):
        raise tlc.TLCError("expected %d placement end states, TLC emitted %d" % (2 * 3 ** (n - 1), len(cases)))
    nontriv = 0
    obs = []
    for c in cases:
        s = np.array(c["s"], dtype=int)
        try:
            ok, part, tree = g.check_tree(s)
        except Exception as ex:
            run.violation("check_tree:raises:%s" % type(ex).__name__, "check_tree(%s) raised %r" % (c["s"], ex), {"s": c["s"]})
            continue
        ptr = {a: [0 if getattr(t, a) is None else getattr(t, a) + 1 for t in tree] for a in ("parent", "left", "right")}
        obs.append(dict(id=len(obs), kind="check_tree", s=c["s"], success=bool(ok), part=[int(x) for x in part], **ptr))
        if not c["success"]:
            nontriv += 1
    valid = sorted(tuple(c["s"]) for c in cases if c["valid"])
    try:
        with contextlib.redirect_stdout(io.StringIO()):
            got = [[int(x) for x in row] for row in g.get_allowed_shapes(n)]
    except Exception as ex:
        run.violation("shapes:n%d:raises" % n, "get_allowed_shapes(%d) raised %r" % (n, ex), {"n": n})
        got = []
    obs.append(dict(id=len(obs), kind="shapes", n=n, shapes=got))
    jres, failed = tlc.judge("TreesJudge", obs, timeout=9000, heap="8g")
    run.add_tlc(jres, "judge_shape_n%d" % n)
    for i, clauses in sorted(failed.items()):
        o = obs[i]
        if o["kind"] == "check_tree":
            run.violation("check_tree:%s" % "".join(map(str, o["s"])),
                          "check_tree(%s) returned success=%s part=%s: violates %s" % (o["s"], o["success"], o["part"], clauses), o)
        else:
            gs = [tuple(x) for x in got]
            run.violation("shapes:n%d" % n, "get_allowed_shapes(%d) violates %s: missing %s extra %s" % (
                n, clauses, [x for x in valid if x not in gs][:5], [x for x in gs if x not in valid][:5]), o)
    if [tuple(x) for x in got] != valid and not failed.get(len(obs) - 1):
        # same set, no repetition, different order: order is what C02/C08 line alignment relies on, not C01
        run.add("shapes", order_differs=True)
    run.add("shapes", evaluations=len(cases) + 1, nontrivial=nontriv, traces=len(cases), **{"valid_n%d" % n: len(valid)})
    if n == 4:
        run.sample({"candidate": cases[7]["s"], "model_end_state": cases[7]})
    return valid


LONGNAMES = [["x", "a"], ["tenexp", "log10_abs"], []]          # chains only: 128 trees at n = 7


def _labelled(run, g, np, s_dir, basis, n, again=False):
    name = bases.name_of(basis)
    res = tlc.must(tlc.run("Trees", "Trees_label.cfg", constants=bases.tla_consts(basis, n), workers=1, heap="8g"),
                   "LabelSpec %s n=%d" % (name, n))
    run.add_tlc(res, "label_%s_n%d" % (name, n))
    for v in res["violated"]:
        run.violation("model:%s:%s:n%d" % (v, name, n), "Trees.tla invariant %s violated (%s n=%d)" % (v, name, n))
    model = sorted(res["json"], key=lambda c: (c["shape"], c["pos"]))
    keys = [(tuple(c["shape"]), c["pos"]) for c in model]
    if len(set(keys)) != len(keys):
        raise tlc.TLCError("EmitPos not injective in the model")
    out = os.path.join(s_dir, "c01_%s_%d" % (re.sub(r"\W", "_", name), n))
    os.makedirs(out, exist_ok=True)
    buf = io.StringIO()
    try:
        with contextlib.redirect_stdout(buf):
            all_fun, extra_orig = g.generate_equations(n, basis, out)
    except Exception as ex:
        if "'-'" not in str(basis[2]) and type(ex).__name__ == "TypeError":
            return           # bases without '-': known finding of C11 (find_additional_trees), not an enumeration defect
        run.violation("generate:raises:%s:n%d" % (name, n), "generate_equations(%d, %s) raised %r" % (n, basis, ex), {"basis": basis, "n": n})
        return
    trees = libio.read_trees(os.path.join(out, "orig_trees_%d.txt" % n))
    exp = [c["labels"] for c in model]
    key = "%s:n%d" % (name, n) + (":regenerated" if again else "")
    # the tree list the later stages read: the originals, then the rewritten trees, nothing else
    fx = os.path.join(out, "extra_trees_%d.txt" % n)
    extra_trees = libio.read_trees(fx) if os.path.exists(fx) else []
    whole = libio.read_trees(os.path.join(out, "trees_%d.txt" % n))
    if whole != trees + extra_trees:
        run.violation("trees_file:" + key, "trees_%d.txt has %d lines; orig_trees (%d) followed by extra_trees (%d) would be %d%s" % (
            n, len(whole), len(trees), len(extra_trees), len(trees) + len(extra_trees),
            "; the first %d lines are not the original trees" % len(trees) if whole[:len(trees)] != trees else ""), {"basis": basis, "n": n})
    if trees != exp:
        sm, st = set(map(tuple, exp)), set(map(tuple, trees))
        miss, extra = sorted(sm - st)[:3], sorted(st - sm)[:3]
        dup = len(trees) - len(st)
        first = next((i for i, (a, b) in enumerate(zip(trees, exp)) if a != b), min(len(trees), len(exp)))
        run.violation("trees:" + key, "orig_trees differ from AllTrees(%s): %d lines vs %d model; missing %s extra %s duplicates %d first differing line %d" % (
            key, len(trees), len(exp), miss, extra, dup, first), {"basis": basis, "n": n})
    m = re.search(r"Original number of trees: (\d+)", buf.getvalue())
    if not m or int(m.group(1)) != len(exp):
        run.violation("count:" + key, "stdout reports %s original trees, cardinality law gives %d" % (m and m.group(1), len(exp)),
                      {"basis": basis, "n": n})
    bad = [t for t in trees if any(re.fullmatch(r"a\d+", l) for l in t) and
           [l for l in t if re.fullmatch(r"a\d+", l)] != ["a%d" % i for i in range(sum(1 for l in t if re.fullmatch(r"a\d+", l)))]]
    if bad:
        run.violation("params:" + key, "parameters not numbered in order of appearance: %s" % bad[:3], {"basis": basis, "n": n})
    run.add("labelled", evaluations=len(exp), nontrivial=len(exp), traces=1, **{key: len(exp)})
    if n == 3 and name == "core_maths":
        run.sample({"basis": basis, "n": n, "model_tree": model[5]})


def run(tier, replay=None):
    r = evidence.Run(PID, tier, "model_checking")
    s = scratch.make()
    scratch.activate(s)
    import numpy as np
    import esr.generation.generator as g
    nshape = 7 if tier == "quick" else 9
    for n in range(2, nshape + 1):
        _shapes(r, g, np, n)
    with contextlib.redirect_stdout(io.StringIO()):
        if [tuple(x) for x in g.get_allowed_shapes(1)] != [(0,)]:
            r.violation("shapes:n1", "get_allowed_shapes(1) != [[0]]")
    S = bases.SHIPPED
    if tier == "quick":
        plan = [(S["core_maths"], n) for n in (1, 2, 3, 4, 5)] + [(S["ext_maths"], 4), (S["base_e_maths"], 3), (S["keep_duplicates"], 3)]
        plan += [(b, 3) for b in bases.sub_bases()[::3]]
        plan += [(b, n) for b in bases.arith_bases() for n in (1, 3, 5)]
        plan += [(bases.USER_STYLE["verif_ax"], 4)]
        plan += [(LONGNAMES, 7)]          # label lists whose printed form is 70..90 characters (the writers' line-width handling)
    else:
        plan = [(S[k], n) for k in S for n in (1, 2, 3, 4)] + [(S["core_maths"], 5), (S["core_maths"], 6), (S["ext_maths"], 5),
                (S["osc_maths"], 5), (S["base_e_maths"], 5), (S["base10_maths"], 5)]
        plan += [(b, n) for b in bases.sub_bases() for n in (2, 3, 4, 5)]
        plan += [(b, n) for b in bases.arith_bases() for n in (1, 2, 3, 5, 7)]
        plan += [(b, n) for b in bases.USER_STYLE.values() for n in (3, 4)]
        plan += [(LONGNAMES, 7), (LONGNAMES, 8), ([["x", "a"], ["tenexp", "log10_abs"], ["-"]], 6)]
    for basis, n in plan:
        _labelled(r, g, np, s, basis, n)
        if basis == S["core_maths"] and n == 4:
            _labelled(r, g, np, s, basis, n, again=True)          # a second generation into the same directory (a repeated job)
    r.cov["rule"] = ("shapes: every arity string in {0,1,2}^n starting with 1 or 2 (n<=%d) is one behaviour of the placement machine; "
                     "non-trivial = rejected candidates (failed-prefix report compared). labelled: every complete labelling TLC reaches, "
                     "compared line by line (order and multiplicity) with orig_trees_n.txt of the real generate_equations." % nshape)
    r.assumptions += ["TLC explores the complete state graph of Trees.tla for the stated constants",
                      "the harness' reading of the tree file format (quoted tokens) is faithful"]
    return r.finish(exhaustive=True)
