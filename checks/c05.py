"""C05 Fitted parameters transfer exactly from a unique function to its variants."""
import csv, json, math, os, random
from fractions import Fraction
from harness import scratch, tlc, evidence, coord, data
from checks import common

PID = "C05"
TEXT = {("neg", 0): "{a0: -a0}", ("neg", 1): "{a1: -a1}", ("inv", 0): "{a0: 1/a0}", ("inv", 1): "{a1: 1/a1}", ("swap", 0): "{a1: a0, a0: a1}",
        ("scale", 0): "{a0: a0/2}", ("scale", 1): "{a1: a1/3}", ("sq", 0): "{a0: a0**2}", ("lost", 0): "nan"}


def _g(t, j, c=1):
    return '[t |-> "%s", j |-> %d, c |-> %d]' % (t, j, c)


def _q(x):
    return Fraction(x[0], x[1])


def _tla_q(f):
    f = Fraction(f)
    return "<<%d,%d>>" % (f.numerator, f.denominator)


def run(tier, replay=None):
    r = evidence.Run(PID, tier, "model_checking")
    s = scratch.make()
    scratch.activate(s)
    import numpy as np
    rng = random.Random(evidence.seed())
    cases = []
    # parameter vectors straddle the snapping threshold (p^2 fd vs 12); Fisher matrices have off-diagonal terms
    confs = [(2, [_g("neg", 0), _g("neg", 1), _g("inv", 0), _g("inv", 1), _g("swap", 0), _g("scale", 0, 2), _g("scale", 1, 3), _g("sq", 0), _g("lost", 0)],
              [(2, 3), ("-1/2", "3/2"), ("1/4", -2), (3, "1/8")], [(3, 1, 2), (12, -2, 5), (48, 4, "3/4")], 2 if tier == "quick" else 3),
             (1, [_g("neg", 0), _g("inv", 0), _g("scale", 0, 2), _g("sq", 0), _g("lost", 0)],
              [(2,), ("-1/2",), ("1/4",), (3,)], [(3,), (12,), (48,), ("3/4",)], 3 if tier == "quick" else 4)]
    for kp, gens, thetas, fishers, maxlen in confs:
        TH = "{%s}" % ", ".join("<<%s>>" % ",".join(_tla_q(v) for v in th) for th in thetas)
        FI = "{%s}" % ", ".join("<<%s>>" % ",".join(_tla_q(v) for v in f) for f in fishers)
        res = tlc.must(tlc.run("Subs", "Subs_cases.cfg", constants={"KP": str(kp), "Gens": "{%s}" % ", ".join(gens), "MaxLen": str(maxlen), "Thetas": TH, "Fishers": FI},
                               workers=8, heap="8g"), "Subs cases k=%d" % kp)
        r.add_tlc(res, "subs_cases_k%d" % kp)
        for v in res["violated"]:
            r.violation("model:" + v, "Subs.tla invariant %s violated" % v)
        for c in res["json"]:
            c["k"] = kp
            cases.append(c)
    # real chains: every distinct chain found in generated libraries (the text forms the simplifier really emits go through load_subs)
    real_rows = []
    for name, n in ([("core_maths", 4)] if tier == "quick" else [("core_maths", 5), ("ext_maths", 4), ("base_e_maths", 4)]):
        L, _ = common.gen_library(r, s, name, n)
        if L is not None:
            for i, row in enumerate(L.inv_subs):
                row = [e for e in row if e.strip()]
                k = max([int(m) for e in row for m in __import__("re").findall(r"a(\d)", e)] + [-1]) + 1
                if row and 1 <= k <= 2 and row not in [x[0] for x in real_rows]:
                    real_rows.append((row, max(k, 1)))
    if tier == "quick" and len(cases) > 3000:
        cases = rng.sample(cases, 3000)
    # a second function template whose likelihood is INFINITE whenever a0 is zero (a1*x + 1/a0): the snapping search of the
    # matching stage must then drop only an admissible subset (Snap!Admissible with bad = zero patterns containing a0)
    import copy
    pole = []
    for c in cases:
        if c["k"] == 2 and not c["lost"] and c.get("regular") and c.get("fdpos") and (c["small"] or c["tie"]):
            d = copy.deepcopy(c)
            d["tmpl"] = "pole"
            pole.append(d)
    if tier == "quick" and len(pole) > 600:
        pole = rng.sample(pole, 600)
    cases = cases + pole
    # ---- synthetic library and stage inputs
    n = 3
    fn_set = "verif_c05"
    libd = os.path.join(s, "esr", "function_library", fn_set, "compl_%d" % n)
    os.makedirs(libd)
    dd = os.path.join(s, "c05_data")
    os.makedirs(dd)
    x, y, sig = data.gauss_file(os.path.join(dd, "d.txt"), lambda x: 1.3 * x - 0.4, n=20, sigma=0.3, seed=evidence.seed() + 1)

    def nll_of(fk, p, tmpl=None):
        if tmpl == "pole":
            if p[0] == 0:
                return float("inf")
            f = p[1] * x + 1.0 / p[0]
        else:
            f = p[0] * x + (p[1] if fk == 2 else 0.0)
        return float(np.sum(0.5 * (f - y) ** 2 / sig ** 2 + 0.5 * np.log(2 * np.pi) + np.log(sig)))
    uniq_rows = {}
    lines_fun, lines_sub, lines_match = [], [], []
    for c in cases:
        th = [float(_q(v)) for v in c["theta"]]
        F = [float(_q(v)) for v in c["F"]]
        key = (c["k"], tuple(th), tuple(F))
        if key not in uniq_rows:
            uniq_rows[key] = len(uniq_rows)
        c["urow"] = uniq_rows[key]
        lines_fun.append("a1*x + 1/a0" if c.get("tmpl") == "pole" else "a0*x + a1" if c["k"] == 2 else "a0*x")
        lines_sub.append([TEXT[(g["t"], g["j"])] for g in c["chain"]])
        lines_match.append(c["urow"])
    realcases = []
    for row, k in real_rows:
        th, F = ([0.7, -1.9], [3.0, 1.0, 2.0]) if k == 2 else ([0.7], [3.0])
        key = (k, tuple(th), tuple(F))
        if key not in uniq_rows:
            uniq_rows[key] = len(uniq_rows)
        realcases.append({"row": row, "k": k, "urow": uniq_rows[key], "theta": th, "F": F})
        lines_fun.append("a0*x + a1" if k == 2 else "a0*x")
        lines_sub.append(row)
        lines_match.append(uniq_rows[key])
    with open(os.path.join(libd, "all_equations_%d.txt" % n), "w") as f:
        f.write("".join(l + "\n" for l in lines_fun))
    with open(os.path.join(libd, "inv_subs_%d.txt" % n), "w") as f:
        csv.writer(f, delimiter=";").writerows(lines_sub)
    with open(os.path.join(libd, "matches_%d.txt" % n), "w") as f:
        f.write("".join("%d\n" % m for m in lines_match))
    outd = os.path.join(dd, "fitting", "output", "output_r")
    os.makedirs(outd)
    os.makedirs(os.path.join(dd, "fitting", "output", "partial_r"))
    nll_u = {}
    with open(os.path.join(outd, "negloglike_comp%d.dat" % n), "w") as f1, open(os.path.join(outd, "derivs_comp%d.dat" % n), "w") as f2:
        for (k, th, F), row in sorted(uniq_rows.items(), key=lambda kv: kv[1]):
            nll_u[row] = 10.0 + 0.25 * row           # the unique's reported -log L: any finite number; it must be copied / re-evaluated
            f1.write(" ".join("%.7e" % v for v in [nll_u[row]] + list(th) + [0.0] * (4 - len(th))) + "\n")
            d = [F[0], F[1], 0, 0, F[2], 0, 0, 0, 0, 0] if k == 2 else [F[0]] + [0] * 9
            f2.write(" ".join("%.7e" % v for v in d) + "\n")
    spec_path, out_path = os.path.join(s, "c05_spec.json"), os.path.join(s, "c05_out.dat")
    json.dump({"fn_set": fn_set, "n": n, "data_dir": dd, "data_file": "d.txt"}, open(spec_path, "w"))
    results = {}
    for P in ([1, 3, 12] if tier == "quick" else [1, 2, 5, 13]):      # two-digit rank numbers in the partial file names
        res = coord.run_ranks(P, "harness.targets:match_batch", (spec_path, out_path), s, timeout=3000)
        if res["status"] != "ok":
            bad = [k for k, cc in res["exit"].items() if cc not in (0, 86)]
            r.violation("match:P%d:%s" % (P, res["status"]), "match.main on %d ranks did not complete: %s %s\n%s" % (P, res["status"], res["detail"][:300], coord.tail(res["out"][bad[0] if bad else 0], 10)), {"P": P})
            continue
        results[P] = [l.split() for l in open(out_path).read().splitlines()]
    judged, meta = [], []
    for P, rows in results.items():
        if len(rows) != len(lines_fun):
            r.violation("match:rows:P%d" % P, "codelen_matches has %d rows for %d functions (%d ranks)" % (len(rows), len(lines_fun), P), {"P": P})
            continue
        for ci, c in enumerate(cases):
            row = rows[ci]
            nll, plen, idx = float(row[0]), float(row[1]), float(row[2])
            pars = [float(v) for v in row[3:3 + c["k"]]]
            k = c["k"]
            rec = {"id": len(judged), "kind": "transfer", "k": k, "lost": bool(c["lost"]), "small": c["small"], "tie": list(c["tie"]), "zeros": [],
                   "len": "nan" if math.isnan(plen) else "finite" if math.isfinite(plen) else "inf", "pOK": True, "formula": True, "nllok": True,
                   "indexOK": int(idx) == c["urow"], "bad": [[1], [1, 2]] if c.get("tmpl") == "pole" else []}
            if not c["lost"] and c["regular"] and c["fdpos"]:
                p = [float(_q(v)) for v in c["p"]]
                fd = [float(_q(v)) for v in c["fd"]]
                # inputs went through %.7e: a parameter whose p^2 fd is within 1e-5 of 12 may fall on either side
                for i in range(k):
                    if abs(p[i] * p[i] * fd[i] / 12.0 - 1.0) < 1e-5 and (i + 1) not in rec["tie"]:
                        rec["tie"].append(i + 1)
                rec["zeros"] = [i + 1 for i in range(k) if pars[i] == 0.0]
                kept = [i for i in range(k) if pars[i] != 0.0]
                rec["pOK"] = all(abs(pars[i] - p[i]) <= 5e-7 * abs(p[i]) for i in kept)
                if math.isfinite(plen):
                    exp = -(len(kept) / 2.0) * math.log(3.0) + sum(0.5 * math.log(fd[i]) + math.log(abs(p[i])) for i in kept)
                    rec["formula"] = abs(plen - exp) <= 2e-6 * max(1.0, abs(exp))
                    rec["expect_len"] = exp
                want = nll_u[c["urow"]] if not rec["zeros"] else nll_of(k, [0.0 if (i + 1) in rec["zeros"] else p[i] for i in range(k)], c.get("tmpl"))
                if c.get("tmpl") == "pole" and not rec["zeros"] and (set(c["small"]) | set(rec["tie"])):
                    rec["formula"] = True      # nothing could be dropped: match.py then sets uncertainty = parameter for the small ones; the property does not fix this length
                rec["nllok"] = abs(nll - want) <= 5e-7 * max(1.0, abs(want))
                rec["expect_nll"] = want
            elif not c["lost"]:
                continue          # map singular at this theta: the property promises nothing
            judged.append(rec)
            meta.append((P, c, row))
        for ri, rc in enumerate(realcases):
            row = rows[len(cases) + ri]
            plen = float(row[1])
            lost = any(e.strip() == "nan" for e in rc["row"])
            judged.append({"id": len(judged), "kind": "transfer", "k": rc["k"], "lost": lost, "small": [], "tie": list(range(1, rc["k"] + 1)), "zeros": [i + 1 for i in range(rc["k"]) if float(row[3 + i]) == 0.0],
                           "len": "nan" if math.isnan(plen) else "finite" if math.isfinite(plen) else "inf", "pOK": True, "formula": True, "nllok": True,
                           "indexOK": int(float(row[2])) == rc["urow"], "bad": []})
            meta.append((P, {"chain": rc["row"], "theta": rc["theta"], "F": rc["F"], "real": True}, row))
    jres, failed = tlc.judge("SubsJudge", judged, heap="8g", timeout=3000)
    r.add_tlc(jres, "subs_judge_transfer")
    for i, cl in sorted(failed.items()):
        P, c, row = meta[i]
        chain = [TEXT[(g["t"], g["j"])] for g in c["chain"]] if not c.get("real") else c["chain"]
        key = "transfer:%s:%s" % (",".join(cl), "|".join(chain))
        if cl == ["finite_when_regular"] and chain and judged[i]["len"] == "inf":
            key = "transfer:nonempty_chain_gets_inf"
        r.violation(key, "codelen_matches row violates %s (%d ranks)\n  chain %s theta %s F %s\n  model p %s fd %s small %s\n  row: nll %s codelen %s idx %s params %s\n  expected %s" % (
            cl, P, chain, c.get("theta"), c.get("F"), c.get("p"), c.get("fd"), c.get("small"), row[0], row[1], row[2], row[3:5],
            {k: judged[i].get(k) for k in ("expect_len", "expect_nll")}), {"chain": chain, "case": c, "row": row, "P": P})
    nontriv = len({json.dumps([m[1].get("chain"), m[1].get("theta"), m[1].get("F")], default=str) for m in meta if m[1].get("chain")})
    r.add("transfer", evaluations=len(judged), nontrivial=nontriv, traces=len(judged), model_cases=len(cases), real_chains=len(realcases), ranks=sorted(results))
    if meta:
        P, c, row = meta[min(len(meta) - 1, 40)]
        r.sample({"chain": c.get("chain"), "theta": c.get("theta"), "F": c.get("F"), "model_p": c.get("p"), "model_fd": c.get("fd"), "row": row[:5]})
    r.cov["rule"] = ("every (chain, theta, F) of Subs.tla's case space (chains of <= %s templates over neg/inv/swap/scale/square/lost, 4 parameter vectors straddling the snapping "
                     "threshold, Fisher matrices with off-diagonal terms; k = 1 and 2%s) becomes a row of a synthetic library; the real match.main runs on 1..13 ranks; "
                     "each codelen_matches row is judged by SubsJudge (Snap!Admissible for the dropped set); plus every distinct chain of real libraries; non-trivial = distinct "
                     "non-empty (chain, theta, F)" % ("2/3" if tier == "quick" else "3/4", ", seeded sample of 3000" if tier == "quick" else ""))
    r.assumptions += ["P3: rationals evaluated in double precision; values passed through %.7e files are compared at 5e-7 (2e-6 for the length)",
                      "the Gaussian likelihood of the linear template is finite for every zero pattern"]
    return r.finish(exhaustive=(tier != "quick"))
