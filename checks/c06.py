"""C06 Final ranking: minimum over variants, ascending order, normalised probabilities."""
import csv, io, json, math, os, random
from checks import common
from harness import scratch, tlc, evidence, coord, pool

PID = "C06"


def _tok(x):
    x = float(x)
    if math.isnan(x):
        return -1
    if math.isinf(x):
        return 1000 if x > 0 else -1000
    return int(round(x)) if abs(x - round(x)) < 1e-9 else 777     # 777: not an integer -> cannot equal any model value


def _shift(tok, off):
    return tok - off if tok not in (-1, 1000, -1000, 777) else tok


def project(t, final):
    """final_<n>.dat text -> rows / obs records for RankJudge (P2/P3 projections only).  A table run with a common shift 'off' of every
    finite likelihood is projected back by subtracting it: the relation is invariant under the shift."""
    rows, prel, dls = [], [], []
    off = t.get("off", 0)
    for rec in csv.reader(io.StringIO(final or ""), delimiter=";"):
        if not rec:
            continue
        fn = rec[1]
        v = int(fn[1:].split("+")[0]) if fn.startswith("v") and fn[1:].split("+")[0].isdigit() else 0
        th = float(rec[7])
        rows.append({"v": v, "rank": int(rec[0]), "dl": _shift(_tok(rec[2]), off), "nll": _shift(_tok(rec[4]), off), "plen": _tok(rec[5]), "tlen": _tok(rec[6]),
                     "theta": _tok(th), "zero": float(rec[3]) == 0.0})
        prel.append(float(rec[3]))
        dls.append(float(rec[2]))
    nonneg = all((p >= 0) for p in prel)            # NaN fails this
    prop, sum1 = True, True
    if rows and math.isfinite(dls[0]):
        ratios = [p / math.exp(-(d - dls[0])) for p, d in zip(prel, dls) if p != 0 and math.isfinite(d)]
        prop = all(abs(r - ratios[0]) <= 1e-9 * abs(ratios[0]) for r in ratios) if ratios else False
        sum1 = abs(sum(prel) - 1.0) < 1e-9
    return {"id": t["id"], "U": t["U"], "tab": t["tab"], "rows": rows, "obs": {"nonneg": bool(nonneg), "prop": bool(prop), "sum1": bool(sum1)}}


def run(tier, replay=None):
    r = evidence.Run(PID, tier, "model_checking")
    s = scratch.make()
    rng = random.Random(evidence.seed())
    if tier == "quick":
        consts = {"U": "2", "K": "3", "NllV": "{0,1,1000,-1}", "PlenV": "{0,2,-1}", "TlenV": "{1,2}"}
        nsample, nsim, nP = 2500, 1500, 300
    else:
        consts = {"U": "2", "K": "3", "NllV": "{0,1,1000,-1}", "PlenV": "{0,2,1000,-1}", "TlenV": "{1,2}"}
        nsample, nsim, nP = None, 20000, 3000
    res = tlc.must(tlc.run("Rank", "Rank_mc.cfg", constants=consts, workers=8, heap="8g", timeout=3000), "Rank exhaustive")
    r.add_tlc(res, "rank_model")
    for v in res["violated"]:
        r.violation("model:" + v, "Rank.tla invariant %s violated (the relation itself is inconsistent)" % v)
    # tables of any size (TLAPS): rows satisfying row_per_unique, minimum_over_variants and non_decreasing have a first row that no variant beats
    common.prove(r, "RankProofs", tier, "the top row of a table satisfying Rank!Combine is not beaten by any variant (tables of any size)", selftests=[
        ("RankProofs.tla", "MinOverVariants(rows), NonDecreasing(rows), NEW v", "MinOverVariants(rows), NEW v")])
    tables = [{"U": 2, "tab": t} for t in res["json"] if isinstance(t, list)]
    exhaustive = nsample is None
    if nsample is not None and len(tables) > nsample:
        tables = rng.sample(tables, nsample)
    # deeper random tables: U = 3..4, up to 6 variants, via TLC -simulate (behaviours of the table builder)
    sim = tlc.must(tlc.run("Rank", "SPECIFICATION SimSpec\nINVARIANT EmitTable\nCHECK_DEADLOCK FALSE\n",
                           constants={"U": "4", "K": "6", "NllV": "{0,1,2,3,1000,-1}", "PlenV": "{0,1,2,1000,-1}", "TlenV": "{1,2,3}"},
                           simulate="num=%d" % (nsim // 5), depth=6, seed=evidence.seed(), workers=1), "Rank simulate")
    r.add_tlc(sim, "rank_simulate")
    seen = set()
    for t in sim["json"]:
        if isinstance(t, list) and json.dumps(t) not in seen:
            seen.add(json.dumps(t))
            tables.append({"U": 4, "tab": t})
    # the same tables with every finite likelihood shifted by a common large amount (large data sets: DL of thousands of nats; very
    # precise data: large negative DL): the relation, shifted back, is unchanged
    base = rng.sample(tables, min(len(tables), 240 if tier == "quick" else 2400))
    shifted = [dict(t, off=rng.choice([3000, 900, 746, -720, -1500])) for t in base]
    # many uniques (more uniques than ranks, for the 12-rank runs): TLC -simulate, only the complete tables
    big = tlc.must(tlc.run("Rank", "SPECIFICATION SimSpec\nINVARIANT EmitTable\nCHECK_DEADLOCK FALSE\n",
                           constants={"U": "30", "K": "44", "NllV": "{0,1,2,3,4,5,6,1000,-1}", "PlenV": "{0,1,2,3,1000,-1}", "TlenV": "{1,2,3}"},
                           simulate="num=%d" % (12 if tier == "quick" else 80), depth=44, seed=evidence.seed() + 1, workers=1), "Rank simulate U=30")
    r.add_tlc(big, "rank_simulate_U30")
    bigtabs = [{"U": 30, "tab": t} for t in big["json"] if isinstance(t, list) and len(t) >= 44]
    bigtabs += [dict(t, off=rng.choice([3000, -1500])) for t in bigtabs[:len(bigtabs) // 2]]
    # the stage run a second time in the same output directory, after a run on another table with the same uniques
    rerun = []
    for t in rng.sample(tables, min(len(tables), 150 if tier == "quick" else 1500)):
        other = rng.choice([q for q in tables if q["U"] == t["U"]])
        rerun.append(dict(t, pre=other["tab"]))
    # a table with more than a thousand uniques: the disjoint union of simulated tables (uniques renumbered), variants interleaved; the relation is
    # judged by TLC exactly as for the small ones
    four = [t for t in tables if t["U"] == 4 and not t.get("off")]
    huge = []
    for rep in range(1 if tier == "quick" else 3):
        parts = [rng.choice(four) for _ in range(870)]          # ~1700 rows; 13 q mod 880 stays injective
        # likelihoods made distinct from part to part (else the repeated-likelihood rule zeroes nearly every row) at constant description
        # length: nll + base, tree code + (880 - base); all values stay below the INF token
        tab = [dict(v, idx=v["idx"] + 4 * q, nll=v["nll"] + (13 * q) % 880 if v["nll"] not in (1000, -1) else v["nll"], tlen=v["tlen"] + 880 - (13 * q) % 880)
               for q, t in enumerate(parts) for v in t["tab"]]
        rng.shuffle(tab)
        huge.append({"U": 4 * len(parts), "tab": tab})
    tables += shifted + bigtabs + rerun + huge
    for k, t in enumerate(tables):
        t["id"] = k
    # run the real stage: 1 rank (parallel pool) for all tables, 2 and 3 ranks for a sample
    nproc = 14
    chunks = pool.chunk(tables, nproc)
    args = []
    for k, ch in enumerate(chunks):
        tp, op = os.path.join(s, "c06_in_%d.json" % k), os.path.join(s, "c06_out_%d.json" % k)
        json.dump(ch, open(tp, "w"))
        args.append((tp, op, os.path.join(s, "c06_w_%d" % k)))
    out = pool.parallel("harness.targets:combine_batch", args, s)
    results = {}
    for (rc, tail), a in zip(out, args):
        if rc != 0:
            raise RuntimeError("combine batch worker failed: " + tail)
        for x in json.load(open(a[1])):
            results[(1, x["id"])] = x
    for P in (2, 3, 12):
        sub = rng.sample(tables, min(nP if P < 12 else nP // 4, len(tables)))
        if P == 12:
            sub = [t for t in tables if t["U"] == 30] + sub
        tp, op = os.path.join(s, "c06_inP%d.json" % P), os.path.join(s, "c06_outP%d.json" % P)
        json.dump(sub, open(tp, "w"))
        rr = coord.run_ranks(P, "harness.targets:combine_batch", (tp, op, os.path.join(s, "c06_wP%d" % P)), s, timeout=3000)
        if rr["status"] != "ok":
            r.violation("ranks:P%d" % P, "combine_DL on %d ranks did not complete: %s %s\n%s" % (P, rr["status"], rr["detail"][:300], coord.tail(rr["out"][0], 6)), {"P": P})
            continue
        for x in json.load(open(op)):
            results[(P, x["id"])] = x
    byid = {t["id"]: t for t in tables}
    cases, meta = [], []
    for (P, tid), x in sorted(results.items()):
        t = byid[tid]
        if x["errors"]:
            kinds = sorted({_classify(v) for v in t["tab"]})
            r.violation("raised:%s" % x["errors"][0].split(":")[0], "combine_DL raised %s on table %s (U=%d, %d ranks)" % (x["errors"], t["tab"], t["U"], P), {"table": t, "P": P})
            continue
        c = project(t, x["final"])
        c["id"] = len(cases)
        cases.append(c)
        meta.append((P, t, x["final"]))
    jres, failed = tlc.judge("RankJudge", cases, heap="8g", timeout=3000)
    r.add_tlc(jres, "rank_judge")
    nontriv = 0
    for c in cases:
        dls = {row["dl"] for row in c["rows"]}
        if len(c["rows"]) >= 2 and (1000 in dls or len(dls) < len(c["rows"]) or any(v["nll"] == -1 or v["plen"] == -1 for v in c["tab"])):
            nontriv += 1
    for i, cl in sorted(failed.items()):
        P, t, final = meta[i]
        alldl = [_dl(v) for v in t["tab"]]
        key = "table:" + ",".join(cl)
        if cl == ["prel_non_negative"] and all(d in (1000, -1) for d in alldl):
            key = "prel_nan_when_no_finite_dl"
        r.violation(key, "final table violates Rank!Combine clauses %s (U=%d, %d ranks)\n  table %s\n  final:\n%s" % (cl, t["U"], P, t["tab"], (final or "")[:600]),
                    {"table": t, "P": P, "final": final})
    r.add("tables", evaluations=len(cases), nontrivial=nontriv, traces=len(cases), exhaustive_alphabet=consts, runs_P1=sum(1 for m in meta if m[0] == 1),
          runs_P2=sum(1 for m in meta if m[0] == 2), runs_P3=sum(1 for m in meta if m[0] == 3), runs_P12=sum(1 for m in meta if m[0] == 12),
          shifted=sum(1 for m in meta if m[1].get("off")), rerun_in_same_directory=sum(1 for m in meta if m[1].get("pre")), many_uniques=sum(1 for m in meta if m[1]["U"] == 30), over_1000_uniques=sum(1 for m in meta if m[1]["U"] > 1000))
    if cases:
        k = min(len(cases) - 1, 17)
        r.sample({"table": cases[k]["tab"], "U": cases[k]["U"], "observed_rows": cases[k]["rows"], "obs": cases[k]["obs"]})
    r.cov["rule"] = ("tables = behaviours of Rank.tla's table builder (exhaustive for U=2, <=3 variants over the stated alphabets%s; TLC -simulate for U=4, <=6 variants); "
                     "a sample is also run with all finite likelihoods shifted by +3000..-1500 nats and TLC -simulate tables with 30 uniques are run on 1 and 12 ranks; "
                     "each is written as codelen_matches/aifeyn/equation files, the real combine_DL.main runs on 1 (all), 2, 3 and 12 ranks (sample) and TLC decides "
                     "Rank!Combine(table, final table); non-trivial = final tables with >= 2 rows containing an infinite DL, a tie, or a NaN entry in the input" % (
                         "" if exhaustive else ", seeded sample of %d in the quick tier" % nsample))
    r.assumptions += ["P2/P3: DLs of integer inputs are exact integers; Prel compared through ratios at 1e-9"]
    return r.finish(exhaustive=exhaustive)


def _dl(v):
    vals = [v["nll"], v["plen"], v["tlen"]]
    if -1 in vals:
        return -1
    if 1000 in vals:
        return 1000
    return sum(vals)


def _classify(v):
    return "nan" if _dl(v) == -1 else "inf" if _dl(v) == 1000 else "fin"
