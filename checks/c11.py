"""C11 Rewritten (extra) trees are well formed and equal to the tree they came from.

spec/Rewrite.tla holds the relation RewriteOK (well-formed prefix tree, vocabulary of the basis, no new
parameter names, same function as P1 class ids), the law of the driver's list (no repetition, first element
is the original) and an abstract driver whose model check (Rewrite_mc.cfg) gives the termination / step-bound
argument.  The splice arithmetic of update_tree / update_sums is not transcribed.

Binding: every labelled tree TLC enumerates (LabelSpec of Trees.tla) for a (basis, n) of the plan is fed to the
real find_additional_trees in worker processes (harness/rewrite.py); one record per tree and one per rewritten
tree go to TLC (spec/RewriteJudge.tla), which decides every clause.  The driver must come back with its list
for every tree: an exception or two consecutive watchdog expiries (20 s, ~1000x the slowest measured call) are
violations of "rewriting terminates for every tree" / "every alternative tree ...".  Every failing tree is re-run in
a fresh process before it is reported (DESIGN.md 7.2); a binding self-test feeds corrupted records to the judge.

Inputs (plan): the shipped bases, bases.USER_STYLE and FAMILY below (all six unary operators the rewriting looks at,
one basis per subset of {-, /, pow} next to + and *): exhaustive up to the stated n, seeded random subsets of TLC's
trees above (coverage['sampled'])."""
import collections, copy, json, random, zlib
from concurrent.futures import ThreadPoolExecutor

from harness import scratch, tlc, evidence, bases, rewrite

PID = "C11"
NPROC = 6                 # worker processes for the real code
NTLC = 4                  # concurrent TLC runs (enumeration / judging)
JUDGE_BATCH = 15000       # records per TLC judge run
CONFIRM_PER_GROUP = 12    # failing trees per (basis, clause set) re-run in a fresh process and reported
RECORD_PER_GROUP = 3      # rewrite-level violations recorded per (basis, clause set); all are counted
LIMIT = 20.0              # watchdog per call of the driver, seconds


# further user-style bases of the quantifier (binary operators include + and *, any of - / pow; every unary operator the
# rewriting looks at, incl. cube): one basis per subset of {-, /, pow}
U6 = ["inv", "square", "cube", "sqrt_abs", "log_abs", "exp"]
FAMILY = {}
for _extra in ([], ["-"], ["/"], ["pow"], ["-", "/"], ["-", "pow"], ["/", "pow"], ["-", "/", "pow"]):
    _nm = "verif_u6" + "".join("_" + {"-": "sub", "/": "div", "pow": "pow"}[e] for e in _extra)
    FAMILY[_nm] = [["x", "a"], list(U6), ["+", "*"] + _extra]


LOGS = [["x", "a"], ["inv", "square", "log_abs", "exp"], ["+", "*", "-"]]


def _tag(name, n):
    return "%s_%s" % (name, n) if isinstance(n, str) else "%s_n%d" % (name, n)


def plan(tier):
    S, U = bases.SHIPPED, bases.USER_STYLE
    p = []          # (name, basis, n, sample or None)
    if tier == "quick":
        p += [("core_maths", S["core_maths"], n, None) for n in range(1, 6)]
        p += [(k, S[k], n, None) for k in ("ext_maths", "base_e_maths") for n in range(1, 5)]
        p += [("keep_duplicates", S["keep_duplicates"], n, None) for n in range(1, 4)]
        p += [("base_e_maths", S["base_e_maths"], 5, None)]          # smallest shipped library with log of a negative net power under '-'
        p += [("core_maths", S["core_maths"], 7, 3000)]             # seeded sample of the first complexity at which sums with a cancelling term have 3 summands
        p += [(k, U[k], n, None) for k in U for n in range(1, 6)]
        p += [(k, FAMILY[k], n, None) for k in ("verif_u6", "verif_u6_sub_div_pow") for n in range(1, 5)]
        # Context[Trigger] trees of RewriteCtx.tla (4..8 nodes): chains of unary operators at every position of a small context
        p += [("verif_logs", LOGS, "ctx", 5000), ("keep_duplicates", S["keep_duplicates"], "ctx", 4000)]
        p += [("ext_maths", S["ext_maths"], "tower", 6000), ("verif_u6", FAMILY["verif_u6"], "tower", 4000), ("base10_maths", S["base10_maths"], "tower4", None)]
    else:
        p += [(k, S[k], n, None) for k in S for n in range(1, 7)]
        p += [(k, U[k], n, None) for k in U for n in range(1, 6)]
        p += [(k, FAMILY[k], n, None) for k in FAMILY for n in range(1, 6)]
        # above the exhaustive range: core_maths n=7 complete, seeded random subsets of TLC's trees elsewhere
        p += [("core_maths", S["core_maths"], 7, None), ("ext_maths", S["ext_maths"], 7, 6000)]
        p += [(k, U[k], 6, 3000) for k in U]
        p += [(k, FAMILY[k], 6, 5000) for k in ("verif_u6", "verif_u6_sub_div_pow")]
        p += [("verif_logs", LOGS, "ctx", None), ("keep_duplicates", S["keep_duplicates"], "ctx", 40000), ("base_e_maths", S["base_e_maths"], "ctx", None),
              ("ext_maths", S["ext_maths"], "ctx", 30000), ("verif_u6_sub_div_pow", FAMILY["verif_u6_sub_div_pow"], "ctx", 40000)]
        p += [(k, S[k], "tower", None) for k in S] + [("verif_u6", FAMILY["verif_u6"], "tower", None), ("verif_cube", U["verif_cube"], "tower", None)]
    return p


def _enumerate(job):
    name, basis, n, sample = job
    if n in ("ctx", "tower", "tower4"):
        # ctx: chains of <= 3 unary operators in all nine contexts; tower: bare chains of <= 5 (net powers such as 12, 16, 1/18 over exp / log)
        res = tlc.must(tlc.run("RewriteCtx", "RewriteCtx.cfg", constants={"B1": bases.tla_seq(basis[1]), "B2": bases.tla_seq(basis[2]),
                                                                          "ChainMax": {"ctx": "3", "tower": "5", "tower4": "4"}[n], "KindSet": "1..9" if n == "ctx" else "{1, 10}"},
                               workers=4, heap="8g"), "RewriteCtx %s %s" % (name, n))
    else:
        res = tlc.must(tlc.run("Trees", "Trees_label.cfg", constants=bases.tla_consts(basis, n), workers=1, heap="4g"),
                       "LabelSpec %s n=%d" % (name, n))
    if res["violated"]:
        raise tlc.TLCError("invariant %s violated for %s n=%s (C01's business; C11 needs the enumeration)" % (
            res["violated"], name, n))
    trees = [{"shape": c["shape"], "labels": c["labels"]} for c in res["json"]]
    if len({tuple(t["labels"]) for t in trees}) != len(trees) or not trees:
        raise tlc.TLCError("LabelSpec %s n=%s: %d trees, not pairwise distinct" % (name, n, len(trees)))
    total = len(trees)
    if sample is not None and sample < total:
        rng = random.Random(evidence.seed() * 1000003 + zlib.crc32(("%s:%s" % (name, n)).encode()))
        trees = [trees[i] for i in sorted(rng.sample(range(total), sample))]
    return job, res, trees, total


def _judge(cases):
    out, results = {}, []
    batches = [cases[i:i + JUDGE_BATCH] for i in range(0, len(cases), JUDGE_BATCH)]
    with ThreadPoolExecutor(NTLC) as ex:
        for res, failed in ex.map(lambda b: tlc.judge("RewriteJudge", b, heap="4g"), batches):
            results.append(res)
            out.update(failed)
    return results, out


def _selftest(run, cases):
    """binding self-test: corrupted records must be rejected by TLC with the intended clause (exit 2 otherwise)."""
    good = [c for c in cases if c["kind"] == "rewrite" and c["clsOrig"] == 0 and c["clsNew"] == 0 and "x" in c["new"]]
    tree = [c for c in cases if c["kind"] == "tree" and c["returned"] and c["nrewrites"] >= 1]
    if not good or not tree:
        return
    g, t = good[0], tree[0]
    muts = []

    def mut(base, clause, **ch):
        m = copy.deepcopy(base)
        m.update(ch)
        m["id"] = len(muts)
        muts.append((clause, m))

    mut(g, None)
    mut(g, "same_function", clsNew=1)
    mut(g, "well_formed", new=g["new"][:-1], wit=g["wit"][:-1], ar=g["ar"][:-1], types=g["types"][:-1])
    k = g["new"].index("x")
    mut(g, "vocabulary", new=g["new"][:k] + ["y"] + g["new"][k + 1:])
    mut(g, "same_parameters", new=g["new"][:k] + ["a7"] + g["new"][k + 1:])
    mut(g, "nodes_match_labels", types=g["types"][:-1] + [1])
    foreign = [op for op in ("sin", "tenexp", "cube", "abs") if op not in g["b1"]][0]
    mut(g, "vocabulary", new=[foreign] + g["new"], wit=[0] + g["wit"], ar=[1] + g["ar"], types=[1] + g["types"])
    mut(t, None)
    mut(t, "no_repetition", lids=t["lids"] + [t["lids"][-1]], nrewrites=t["nrewrites"] + 1)
    mut(t, "first_is_original", lids=t["lids"][::-1])
    mut(t, "driver_returns", returned=False)
    mut(t, "one_record_per_rewrite", nrewrites=t["nrewrites"] + 1)
    res, failed = tlc.judge("RewriteJudge", [m for _, m in muts])
    for clause, m in muts:
        got = failed.get(m["id"], [])
        if (clause is None and got) or (clause is not None and clause not in got):
            raise tlc.TLCError("binding self-test: record corrupted for %r judged %s by RewriteJudge.tla" % (clause, got))
    run.add("selftest", evaluations=len(muts), corrupted_records_rejected=len(muts) - 2)


def _observe(s, groups):
    """groups: [(name, basis, trees)] -> per group list of observations (order of trees)."""
    blist = [g[1] for g in groups]
    items = []
    for b, (_, _, trees) in enumerate(groups):
        for t in trees:
            items.append({"k": len(items), "b": b, "shape": t["shape"], "labels": t["labels"]})
    results, stats = rewrite.run_trees(s, blist, items, nproc=NPROC, limit=LIMIT)
    missing = [it["k"] for it in items if it["k"] not in results]
    if missing:
        raise rewrite.WorkerFailure("no observation for %d trees" % len(missing))
    per = [[] for _ in groups]
    for it in items:
        per[it["b"]].append(results[it["k"]])
    return per, stats


def _failures(groups, per):
    """judge all observations; returns (tlc results, all cases, failing {(gi, orig tuple): [(clauses, case, obs, rw)]})."""
    cases, back = [], []
    for gi, ((name, basis, _), obs) in enumerate(zip(groups, per)):
        c, b = rewrite.cases_of(obs, name, basis, first_id=len(cases))
        cases += c
        back += [(gi,) + x for x in b]
    results, failed = _judge(cases)
    bad = collections.OrderedDict()
    for i in sorted(failed):
        clauses = sorted(failed[i])
        gi, o, rw = back[i]
        if clauses == ["projection_arity"]:
            raise tlc.TLCError("P1's operator table disagrees with the basis for %s (harness fault)" % cases[i]["new"])
        bad.setdefault((gi, tuple(o["orig"])), []).append((clauses, cases[i], o, rw))
    return results, cases, bad


def _sig(entries):
    """signature of a failing tree: what failed, without the instance"""
    return tuple(sorted({("+".join(cl), o.get("etype", "")) for cl, _, o, _ in entries}))


def _report(run, groups, bad, confirmed_of, total_bad):
    """one VIOLATION per failing case; exceptions grouped by (type, basis)."""
    raises = collections.OrderedDict()
    recorded = collections.Counter()
    for (gi, orig), entries in bad.items():
        name, basis, _ = groups[gi]
        again = confirmed_of.get((gi, orig))
        if again is None:
            continue                                   # beyond the per-group cap: counted, not re-run
        for clauses, case, o, rw in entries:
            same = [e for e in again if e[0] == clauses and (rw is None) == (e[3] is None) and
                    (rw is None or e[3]["new"] == rw["new"])]
            if not same:
                raise tlc.TLCError("non-reproducible verdict for %s %s: first run %s, fresh process %s" % (
                    name, list(orig), clauses, [e[0] for e in again]))
            replay = {"basisname": name, "basis": basis, "trees": [{"shape": o["shape"], "labels": list(orig)}]}
            if rw is None and o["status"] == "raise":
                raises.setdefault((o["etype"], name), []).append((o, replay))
            elif rw is None and o["status"] == "nonterminating":
                recorded[(name, "nonterminating")] += 1
                if recorded[(name, "nonterminating")] > RECORD_PER_GROUP:
                    continue
                run.violation("nonterminating:%s:%s" % (name, " ".join(orig)),
                              "find_additional_trees(%s, basis %s %s) did not return within %.0f s in two fresh runs (slowest "
                              "terminating call measured: 0.012 s)" % (list(orig), name, basis, LIMIT), replay)
            elif rw is None:
                run.violation("%s:%s:%s" % ("+".join(clauses), name, " ".join(orig)),
                              "find_additional_trees(%s, basis %s): the returned list violates %s: ids of the label lists %s "
                              "(id %d = the input), %d Node lists" % (list(orig), name, clauses, o["lids"], o["oid"],
                                                                     o.get("ntrees_returned", -1)), replay)
            else:
                grp = (name, "+".join(clauses))
                recorded[grp] += 1
                if recorded[grp] > RECORD_PER_GROUP:
                    continue
                run.violation("%s:%s:%s=>%s" % ("+".join(clauses), name, " ".join(orig), " ".join(rw["new"])),
                              "find_additional_trees(%s, basis %s %s) returned the alternative %s (list index %d, node types %s): "
                              "RewriteOK violated: %s. %s (%d failing trees in this run, %d failing alternatives in this group)" % (
                                  list(orig), name, basis, rw["new"], rw["idx"], rw["types"], clauses, rw["info"], total_bad,
                                  sum(1 for es in bad.values() for e in es if e[0] == clauses and e[1]["basisname"] == name)),
                              replay)
    for (etype, name), lst in raises.items():
        n_all = sum(1 for (gi, _), es in bad.items() if groups[gi][0] == name
                    for e in es if e[3] is None and e[2].get("etype") == etype)
        o = lst[0][0]
        run.violation("raises:%s:%s" % (etype, name),
                      "find_additional_trees raises %s (%s) at %s for %d trees of basis %s %s, e.g. %s -- the driver must return its "
                      "list for every tree" % (etype, o["msg"], " <- ".join(reversed(o["where"])), n_all, name, lst[0][1]["basis"],
                                               [r["trees"][0]["labels"] for _, r in lst[:8]]),
                      {"basisname": name, "basis": lst[0][1]["basis"], "trees": [r["trees"][0] for _, r in lst]})


def _check(run, s, groups, label=""):
    per, stats = _observe(s, groups)
    results, cases, bad = _failures(groups, per)
    for k, res in enumerate(results):
        run.add_tlc(res, "judge%s_%d" % (label, k))
    confirmed_of = {}
    if bad:
        # DESIGN 7.2: re-run every failing tree (capped per basis and failure signature) in a fresh process
        pick, per_sig = [], collections.Counter()
        for key, entries in bad.items():
            if all(e[2]["status"] == "nonterminating" for e in entries):
                confirmed_of[key] = entries            # already run twice in fresh processes by the watchdog
                continue
            sg = (groups[key[0]][0], _sig(entries))
            per_sig[sg] += 1
            if per_sig[sg] <= CONFIRM_PER_GROUP:
                pick.append(key)
        g2 = [(groups[gi][0], groups[gi][1], [{"shape": bad[(gi, orig)][0][2]["shape"], "labels": list(orig)}])
              for gi, orig in pick]
        per2, _ = _observe(s, g2)
        res2, _, bad2 = _failures(g2, per2)
        for k, res in enumerate(res2):
            run.add_tlc(res, "judge_confirm%s_%d" % (label, k))
        for j, key in enumerate(pick):
            confirmed_of[key] = bad2.get((j, key[1]), [])
        _report(run, groups, bad, confirmed_of, len(bad))
    return per, cases, bad, stats


def run(tier, replay=None):
    r = evidence.Run(PID, tier, "model_checking")
    s = scratch.make()
    scratch.activate(s)
    if replay:
        rp = json.load(open(replay))["replay"]
        groups = [(rp["basisname"], rp["basis"], rp["trees"])]
        per, cases, bad, _ = _check(r, s, groups, "_replay")
        r.add("replay", evaluations=len(rp["trees"]), nontrivial=sum(1 for o in per[0] if o["rewrites"]))
        return r.finish(exhaustive=False)

    # (1) the design argument: the abstract driver of Rewrite.tla
    res = tlc.must(tlc.run("Rewrite", "Rewrite_mc.cfg", workers=1), "Rewrite_mc")
    r.add_tlc(res, "abstract_driver_K3")
    for v in res["violated"]:
        r.violation("model:%s" % v, "Rewrite.tla: %s violated by the abstract driver (design of the closure loop)" % v)

    # (2) the inputs: every labelled tree TLC enumerates
    jobs = plan(tier)
    with ThreadPoolExecutor(NTLC) as ex:
        enum = list(ex.map(_enumerate, jobs))
    groups, sampled = [], {}
    for (name, basis, n, sample), res, trees, total in enum:
        r.add_tlc(res, "label_" + _tag(name, n))
        groups.append((name, basis, trees))
        if sample is not None and len(trees) < total:
            sampled[_tag(name, n)] = [len(trees), total]

    # (3) the real driver on every tree, TLC as judge
    per, cases, bad, stats = _check(r, s, groups)
    _selftest(r, cases)

    for (name, basis, n, _), (_, _, trees), obs in zip(jobs, groups, per):
        nre = sum(1 for o in obs if o["rewrites"])
        alts = sum(len(o["rewrites"]) for o in obs)
        dec = sum(1 for o in obs for rw in o["rewrites"] if rw["clsOrig"] == 0 and rw["clsNew"] >= 0)
        fed = sum(1 for o in obs if o["status"] != "suspect")
        r.add("driver", evaluations=fed, nontrivial=nre, traces=fed,
              **{_tag(name, n): {"trees": len(trees), "with_rewrites": nre, "rewrites": alts, "p1_decided": dec,
                                        "not_returned": sum(1 for o in obs if o["status"] not in ("ok", "suspect"))}})
    for want in (("core_maths", 5), ("verif_nosub", 4), ("base_e_maths", 4), ("verif_cube", 4), ("ext_maths", 4)):
        for (name, basis, n, _), obs in zip(jobs, per):
            if (name, n) == want:
                o = next((o for o in obs[len(obs) // 2:] if o["rewrites"]), None)
                if o:
                    r.sample({"basis": name, "orig": o["orig"], "rewritten": [rw["new"] for rw in o["rewrites"]],
                              "p1_classes": [[rw["clsOrig"], rw["clsNew"]] for rw in o["rewrites"]]})
    r.cov["watchdog"] = dict(stats, limit_s=LIMIT)
    r.cov["failing_trees"] = len(bad)
    if sampled:
        r.cov["sampled"] = sampled
    r.cov["rule"] = ("every labelled tree TLC enumerates for the (basis, n) of the plan, and every Context[Trigger] tree of RewriteCtx.tla for the bases marked 'ctx' "
                     "(seeded random subset where 'sampled' says so), is "
                     "passed to the real find_additional_trees exactly as shape_to_functions passes it; evaluations = trees fed; "
                     "non-trivial = trees for which the driver returned at least one alternative (measured per tree; trees are pairwise "
                     "distinct label lists); every alternative is one record judged by TLC against Rewrite!RewriteOK, every tree one "
                     "record judged against the list law and 'driver returns'")
    r.assumptions += ["P1: agreement at 24 generic points (6 x, 4 parameter vectors) where the original tree is finite, 50-digit "
                      "re-evaluation on mismatch, decides equality of real functions; fewer than 3 finite points -> undecided (not judged)",
                      "TLC explores the complete state graph of Trees.tla (LabelSpec) for the stated constants",
                      "watchdog: a call that exceeds 20 s twice in fresh processes is taken as non-termination"]
    return r.finish(exhaustive=not sampled)
