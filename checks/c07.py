"""C07 Parameter code length and zero-snapping follow the MDL formula."""
import json, os, random
from harness import scratch, tlc, evidence, pool

PID = "C07"


def _main_rows(r, s, cases, kmax):
    """The rows test_all_Fisher.main writes (what the later stages and the user read), not only convert_params' return value: every
    curvature-regular decision input is realised as a one-function library + the fit stage's output file, the real main runs on it and
    the written row is judged by the same SnapJudge relation.  'pole' realises the inputs whose zero patterns make the likelihood infinite
    with a real function string (a1*x + 1/a0) instead of a likelihood wrapper."""
    mc = []
    for c in cases:
        if all(x == "pos" for x in c["curv"]) and not c["bad"] and c.get("scale", 1.0) == 1.0:
            mc.append({"k": c["k"], "small": c["small"], "tie": c["tie"], "curv": c["curv"], "bad": [], "tmpl": "lin"})
    for small in ([], [1], [2], [1, 2]):
        for tie in ([], [1], [2]):
            if set(tie) & set(small):
                continue
            cand = sorted(set(small) | set(tie))
            bad = [list(z) for z in ([[1]] if 1 in cand and 2 not in cand else [[1], [1, 2]] if 1 in cand else [])]
            mc.append({"k": 2, "small": small, "tie": tie, "curv": ["pos", "pos"], "bad": bad, "tmpl": "pole"})
    for n, c in enumerate(mc):
        c["id"] = n
    args = []
    for j, ch in enumerate(pool.chunk(mc, 8)):
        tp, op = os.path.join(s, "c07m_in_%d.json" % j), os.path.join(s, "c07m_out_%d.json" % j)
        json.dump(ch, open(tp, "w"))
        args.append((tp, op, os.path.join(s, "c07m_w_%d" % j)))
    out = pool.parallel("harness.targets:fisher_main_batch", args, s, timeout=3000)
    obs = {}
    for (rc, tail), a in zip(out, args):
        if rc != 0:
            raise RuntimeError("fisher main batch worker failed: " + tail)
        for x in json.load(open(a[1])):
            obs[x["id"]] = x
    judged, meta = [], []
    for c in mc:
        o = obs[c["id"]]
        tag = "fisher_main:%s:k%d:small%s:tie%s" % (c["tmpl"], c["k"], c["small"], c["tie"])
        if "raised" in o:
            r.violation(tag + ":raised", "test_all_Fisher.main raised %s on case %s" % (o["raised"], c), {"case": c})
            continue
        judged.append({"id": len(judged), "k": c["k"], "small": c["small"], "tie": c["tie"], "curv": c["curv"], "bad": c["bad"],
                       "len": o["len"], "zeros": o["zeros"], "formula": o["formula"], "nllok": o["nllok"] and o["params_are_ml_or_zero"]})
        meta.append((c, o, tag))
        if not o["hessian_ok"]:
            r.violation(tag + ":hessian_row", "derivs file row is not the observed Fisher matrix (upper triangle) of the kept parameters\n  case %s\n  observed %s" % (c, o), {"case": c, "observed": o})
        if not o["free_row_ok"]:
            r.violation(tag + ":parameter_free_row", "the parameter-free function 'x' of the same library must get parameter code 0, its own likelihood and zero parameters\n  case %s" % c, {"case": c, "observed": o})
    jres, failed = tlc.judge("SnapJudge", judged)
    r.add_tlc(jres, "snap_judge_main_rows")
    for i, cl in sorted(failed.items()):
        c, o, tag = meta[i]
        r.violation(tag + ":" + ",".join(cl), "the row written by test_all_Fisher.main violates Snap clauses %s\n  case %s\n  observed %s" % (cl, c, o), {"case": c, "observed": o})
    r.add("main_rows", evaluations=len(judged), nontrivial=sum(1 for c, o, _ in meta if c["small"] or c["tie"]), traces=len(judged),
          pole_cases=sum(1 for c in mc if c["tmpl"] == "pole"))


def run(tier, replay=None):
    r = evidence.Run(PID, tier, "model_checking")
    s = scratch.make()
    kmax = 3
    res = tlc.must(tlc.run("Snap", "Snap.cfg", constants={"KMax": str(kmax)}, workers=4), "Snap")
    r.add_tlc(res, "snap_model")
    for v in res["violated"]:
        r.violation("model:" + v, "Snap.tla invariant %s violated" % v)
    cases = []
    for c in res["json"]:
        c = dict(c)
        c["bad"] = [list(z) for z in c["bad"]]
        c["tie"] = []
        cases.append(c)
    # parameters exactly at the threshold (either side admissible), for every k
    for k in range(1, kmax + 1):
        for i in range(1, k + 1):
            cases.append({"k": k, "small": [], "tie": [i], "curv": ["pos"] * k, "bad": []})
            cases.append({"k": k, "small": [j for j in range(1, k + 1) if j != i], "tie": [i], "curv": ["pos"] * k, "bad": []})
    # badly scaled abscissa (x ~ 1e-9, slope ~ 1e9): the default Hessian step cannot see the curvature of the slope, so the routine must
    # take its fallback step-size branch and decide the snapping with the curvature found there (same decision inputs, same relation)
    scaled = []
    for c in cases:
        if all(x == "pos" for x in c["curv"]) and c["k"] <= 2 and not c["bad"]:
            d = dict(c)
            d["scale"] = 1e-9
            scaled.append(d)
    cases += scaled
    if False:
        rng = random.Random(evidence.seed())
        keep = [c for c in cases if all(x == "pos" for x in c["curv"])]
        rest = [c for c in cases if c not in keep]
        cases = keep + rng.sample(rest, min(len(rest), 60))
    for n, c in enumerate(cases):
        c["id"] = n
    nproc = 8
    args = []
    for j, ch in enumerate(pool.chunk(cases, nproc)):
        tp, op = os.path.join(s, "c07_in_%d.json" % j), os.path.join(s, "c07_out_%d.json" % j)
        json.dump(ch, open(tp, "w"))
        args.append((tp, op, os.path.join(s, "c07_w_%d" % j)))
    out = pool.parallel("harness.targets:snap_batch", args, s, timeout=3000)
    obs = {}
    for (rc, tail), a in zip(out, args):
        if rc != 0:
            raise RuntimeError("snap batch worker failed: " + tail)
        for x in json.load(open(a[1])):
            obs[x["id"]] = x
    judged, meta = [], []
    for c in cases:
        o = obs[c["id"]]
        if "raised" in o:
            r.violation("raised:%s" % o["raised"].split(":")[0], "convert_params raised %s on case %s" % (o["raised"], c), {"case": c})
            continue
        judged.append({"id": len(judged), "k": c["k"], "small": c["small"], "tie": c["tie"] if c.get("scale", 1.0) == 1.0 else c["tie"], "curv": c["curv"], "bad": c["bad"],
                       "len": o["len"], "zeros": o["zeros"], "formula": o["formula"], "nllok": o["nllok"] and o["params_are_ml_or_zero"]})
        meta.append((c, o))
    jres, failed = tlc.judge("SnapJudge", judged)
    r.add_tlc(jres, "snap_judge")
    for i, cl in sorted(failed.items()):
        c, o = meta[i]
        key = "snap:%s:k%d:small%s:curv%s%s" % (",".join(cl), c["k"], c["small"], "".join(x[0] for x in c["curv"]), ":scaled" if c.get("scale", 1.0) != 1.0 else "")
        if cl != ["nonpositive_curvature_gives_nan"]:
            key += ":bad%s" % c["bad"]
        r.violation(key,
                    "convert_params violates Snap clauses %s\n  case %s\n  observed %s" % (cl, c, o), {"case": c, "observed": o})
    _main_rows(r, s, cases, kmax)
    nontriv = sum(1 for c, o in meta if c["small"] or c["tie"] or any(x != "pos" for x in c["curv"]))
    r.add("cases", evaluations=len(judged), nontrivial=nontriv, traces=len(judged), kmax=kmax)
    for c, o in meta[5:8]:
        r.sample({"case": {k: c[k] for k in ("k", "small", "tie", "curv", "bad")}, "observed": {k: o.get(k) for k in ("len", "zeros", "codelen", "expect", "nllok")}})
    r.cov["rule"] = ("every decision input of Snap.tla with k <= %d (small set, one curvature defect at most, set of zero patterns with infinite likelihood) plus "
                     "threshold ties; each is realised by an exactly solvable linear Gaussian model (known Hessian, ML point = chosen theta) and a likelihood "
                     "wrapper; the real test_all_Fisher.convert_params is called and SnapJudge decides the outcome; the curvature-regular inputs are also run through "
                     "the real test_all_Fisher.main on a one-function library and the written rows judged; non-trivial = cases with a small or tied "
                     "parameter or a curvature defect" % kmax)
    r.assumptions += ["P5: Hessian of a linear Gaussian model is Phi^T Phi / sigma^2 exactly; numdifftools reproduces it to 1e-5 in the length",
                      "quick tier samples the curvature-defect cases (seeded); thorough is exhaustive"]
    return r.finish(exhaustive=True)
