"""C08 Tree code length equals k ln(n) + sum ln|c| and stays aligned with the tree list."""
import io, contextlib, math
from harness import scratch, tlc, evidence, bases, libproj, libio
from checks import common

PID = "C08"
VOCAB = [["x", "a0", "a1", "a2", "0", "1", "-1", "2", "-3", "10"], ["inv", "exp", "abs"], ["+", "*", "pow"]]      # abs: an operator whose name starts like a parameter


def close(a, b):
    return abs(a - b) <= 1e-9 * max(1.0, abs(a), abs(b))


def run(tier, replay=None):
    r = evidence.Run(PID, tier, "model_checking")
    s = scratch.make()
    scratch.activate(s)
    import esr.generation.generator as g
    import esr.fitting.fit_single as fs
    nmax = 4 if tier == "quick" else 5
    # (A) every label list over the vocabulary: aifeyn_complexity and tree_to_aifeyn vs P3(Trees!Code)
    for n in range(1, nmax + 1):
        res = tlc.must(tlc.run("Trees", "Trees_label.cfg", constants=bases.tla_consts(VOCAB, n, renumber=False), workers=1, heap="8g"), "vocab")
        r.add_tlc(res, "vocab_n%d" % n)
        nontriv = 0
        for c in res["json"]:
            exp = libproj.code_value(c["code"])
            try:
                got = float(g.aifeyn_complexity(c["labels"], ["a0", "a1", "a2"]))
            except Exception as ex:
                r.violation("aifeyn:raises:%s" % type(ex).__name__, "aifeyn_complexity(%s) raised %r" % (c["labels"], ex), c)
                continue
            if not close(got, exp):
                r.violation("aifeyn:%s" % " ".join(c["labels"]), "aifeyn_complexity(%s) = %.12g, model k ln n + sum ln c = %.12g (%s)" % (
                    c["labels"], got, exp, c["code"]), c)
            try:
                with contextlib.redirect_stdout(io.StringIO()):
                    got2, k2 = fs.tree_to_aifeyn(c["labels"], VOCAB, verbose=False)
            except Exception as ex:
                r.violation("tree_to_aifeyn:raises:%s" % type(ex).__name__, "tree_to_aifeyn(%s) raised %r" % (c["labels"], ex), c)
                continue
            if not close(float(got2), exp) or k2 != len(c["labels"]):
                pars = sorted({l for l in c["labels"] if l in ("a0", "a1", "a2")})
                gap = pars != ["a%d" % i for i in range(len(pars))]
                key = "tree_to_aifeyn:gap_named_params" if gap else "tree_to_aifeyn:%s" % " ".join(c["labels"])
                r.violation(key, "tree_to_aifeyn(%s) = (%.12g, %d), model %.12g (%s)" % (c["labels"], float(got2), k2, exp, c["code"]), c)
            if c["code"]["consts"] or len({l for l in c["labels"] if l.startswith("a")}) > 1:
                nontriv += 1
        r.add("vocabulary", evaluations=2 * len(res["json"]), nontrivial=nontriv, traces=len(res["json"]))
        if n == 3:
            r.sample({"labels": res["json"][100]["labels"], "model_code": res["json"][100]["code"]})
    # (A') the single-tree API asked for several trees in one process: same label SET and length, different multiplicities of the integers
    seqs = [["*", "*", "2", "2", "3"], ["*", "*", "2", "3", "3"], ["+", "+", "2", "10", "10"], ["+", "+", "2", "2", "10"], ["*", "*", "2", "2", "3"],
            ["+", "*", "a0", "2", "2"], ["+", "*", "2", "a0", "a0"], ["pow", "+", "x", "-3", "-3"], ["pow", "+", "-3", "x", "x"]]
    codes = common.model_codes(r, seqs, "codes_sequence")
    for order in (seqs, seqs[::-1]):
        for lab in order:
            exp = libproj.code_value(codes[seqs.index(lab)])
            try:
                with contextlib.redirect_stdout(io.StringIO()):
                    got2, k2 = fs.tree_to_aifeyn(list(lab), VOCAB, verbose=False)
                got1 = float(g.aifeyn_complexity(list(lab), ["a0", "a1", "a2"]))
            except Exception as ex:
                r.violation("sequence:raises:%s" % type(ex).__name__, "tree code of %s raised %r" % (lab, ex), {"labels": lab})
                continue
            if not close(float(got2), exp) or not close(got1, exp):
                r.violation("sequence:%s" % " ".join(lab), "asked after other trees in the same process: tree_to_aifeyn(%s) = %.12g, aifeyn_complexity = %.12g, model %.12g" % (lab, float(got2), got1, exp), {"labels": lab})
    r.add("sequence", evaluations=2 * len(seqs), nontrivial=2 * len(seqs))
    # (B) line i of aifeyn_n.txt belongs to line i of trees_n.txt
    libs = [("core_maths", 4), ("core_maths", 5), ("ext_maths", 4)] if tier == "quick" else \
        [(k, n) for k in bases.SHIPPED for n in (2, 3, 4)] + [("core_maths", 5), ("core_maths", 6), ("ext_maths", 5), ("base_e_maths", 5)]
    extra = dict(bases.USER_STYLE, verif_sqexp=[["x", "a"], ["square", "exp"], ["+", "*", "-", "/", "pow"]],       # rewritten trees printed in 75..85 characters
                 verif_long=[["x", "a"], ["tenexp", "log10_abs"], ["-"]], verif_chain=[["x", "a"], ["tenexp", "log10_abs"], []])
    libs += [("verif_ax", 4), ("verif_sqexp", 5), ("verif_long", 6), ("verif_chain", 7)] if tier == "quick" else [(k, n) for k in bases.USER_STYLE for n in (3, 4)] + [("verif_sqexp", 5), ("verif_long", 6), ("verif_chain", 7), ("verif_chain", 8)]
    for name, n in libs:
        L, _ = common.gen_library(r, s, name, n, basis=extra.get(name))
        if L is None:
            continue
        ev, failed, det, codes = common.judge_library(r, L, "%s_n%d" % (name, n), common.C08_CLAUSES, want_code=True, c02=False, c03=False)
        for i, cl in sorted(failed.items())[:5]:
            r.violation("%s:n%d:header" % (name, n), "Library.tla clauses %s violated: %s" % (cl, det[i]), {"runname": name, "n": n})
        lines = [e for e in ev if e["kind"] == "line"]
        bad = 0
        for e in lines:
            if e["i"] >= len(L.aifeyn):
                break
            exp = libproj.code_value(codes[e["id"]])
            if not close(L.aifeyn[e["i"]], exp):
                bad += 1
                if bad <= 5:
                    r.violation("%s:n%d:line%d" % (name, n, e["i"]), "aifeyn_%d.txt line %d is %.12g but the tree on line %d (%s) has code %.12g (%s)" % (
                        n, e["i"], L.aifeyn[e["i"]], e["i"], e["labels"], exp, codes[e["id"]]), {"runname": name, "n": n, "line": e["i"]})
        r.add("library", evaluations=len(lines), nontrivial=sum(1 for e in lines if e["i"] >= len(L.orig_trees)), traces=1)
        if (name, n) == ("core_maths", 5):
            # the library regenerated into the SAME directory (an interrupted job re-run): alignment must survive
            L2, _ = common.gen_library(r, s, name, n)
            if L2 is not None:
                ev2, failed2, det2, codes2 = common.judge_library(r, L2, "%s_n%d_regenerated" % (name, n), common.C08_CLAUSES, want_code=True, c02=False, c03=False)
                for i, cl in sorted(failed2.items())[:5]:
                    r.violation("%s:n%d:regenerated:header" % (name, n), "after generating twice into the same directory Library.tla clauses %s are violated: %s" % (cl, det2[i]), {"runname": name, "n": n})
                bad2 = [e["i"] for e in ev2 if e["kind"] == "line" and e["i"] < len(L2.aifeyn) and not close(L2.aifeyn[e["i"]], libproj.code_value(codes2[e["id"]]))]
                if bad2:
                    r.violation("%s:n%d:regenerated:lines" % (name, n), "after generating twice into the same directory %d lines of aifeyn_%d.txt no longer belong to the tree on the same line (first: line %d)" % (
                        len(bad2), n, bad2[0]), {"runname": name, "n": n, "lines": bad2[:20]})
                r.add("library_regenerated", evaluations=len(ev2), nontrivial=1, traces=1)
    r.cov["rule"] = ("(A) every well-formed label list with <= %d labels over a vocabulary with 3 unary (one named abs), 3 binary operators, x, a0..a2 and the "
                     "integers {0,1,-1,2,-3,10}: both APIs vs the closed form evaluated from the model's integers (k, nsym, consts); non-trivial = lists "
                     "with an integer constant or two distinct parameters. (B) every line of aifeyn_n.txt vs Trees!Code of the tree on the same line "
                     "(non-trivial = rewritten trees, which carry integers)" % nmax)
    r.assumptions += ["P3: double-precision evaluation of k ln(nsym) + sum ln c from exact integers, compared at 1e-9"]
    return r.finish(exhaustive=True)
