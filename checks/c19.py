"""C19 Supernova distance-modulus prediction equals its defining integral.

(A) cache / grid clauses: Cache.tla is model-checked by TLC (grid contains the data, strictly increasing, starts at the
    lower limit, mask correct for unsorted and repeated redshifts, rebuilt after Clear); every behaviour of MaxCalls
    calls Predict(Z)/Clear that TLC enumerates is replayed into a real PanthLikelihood object and after every call the
    projection of data_x / data_mask is compared with the projection Obs carried by the model's history.
(B) numerical clause (declared projection P3): for H^2 families with known integrals the returned distance modulus is
    compared with 5 log10[(1+z) I_exact] + mu_const within the composite-trapezoid error bound of the ACTUAL grid,
    sum_j h_j^3/12 * sup_j |f''|, f = H^2^(-1/2); the analytically integrated path (run_sympify -> lambdify as the
    fitting code does -> get_pred(integrated=True)) must agree with the numerical path within the same bound.
"""
import json, math, warnings
from harness import scratch, tlc, evidence

PID = "C19"
MU_TOL = 1e-9          # formula-identity tolerance in magnitudes (DESIGN 7.4), on top of the quadrature bound
MAX_RECORDED = 12      # distinct violations recorded per part (all are counted)

# declared maps abstract redshift value k (1..5) -> z ; x = 1 + z
MAPS = {
    "A": [None] + [0.05 * k + 0.013 for k in range(1, 6)],                 # regular, off the fixed linspace nodes
    "B": [None, 0.0123, 0.047, 0.31, 0.93, 2.26],                          # irregular, spans the Pantheon range
}


# ----------------------------------------------------------------------------------------------------------
_MU_CONST = []


def make_like(PanthLikelihood, np):
    """PanthLikelihood without the emptied data files: the attributes get_pred / clear_data / run_sympify use,
    set as likelihood.py:208-214 does."""
    if not _MU_CONST:
        import astropy.constants
        import astropy.units as apu
        Hfid = 1.0 * apu.km / apu.s / apu.Mpc
        mu_const = astropy.constants.c / Hfid / (10 * apu.pc)
        _MU_CONST.append(5 * np.log10(mu_const.to('')))
    L = object.__new__(PanthLikelihood)
    L.mu_const = _MU_CONST[0]
    L.delta_z = 0.02
    L.min_nz = 10
    L.data_x = None
    L.data_mask = None
    return L


def as_float_array(np, v):
    return np.atleast_1d(np.asarray(getattr(v, "value", v), dtype=float))


def project(np, L, zvals, zp1):
    """Projection of the real cache onto Cache!Obs.  zvals: abstract values of the sample, zp1: their floats."""
    if L.data_x is None or L.data_mask is None:        # the code's own 'cache is empty' test (likelihood.py:239)
        return {"built": False, "first": False, "increasing": False, "hits": False, "data": [], "rank": []}
    gx = np.asarray(L.data_x, dtype=float).ravel()
    val2abs = {float(v): k for k, v in zip(zvals, zp1)}
    isdata = [float(v) in val2abs for v in gx]
    cum = [0]
    for b in isdata:
        cum.append(cum[-1] + (1 if b else 0))
    try:
        m = np.atleast_1d(np.asarray(L.data_mask))
        ok = m.ndim == 1 and m.dtype.kind in "iu" and len(m) == len(zp1) and bool(np.all((m >= 0) & (m < len(gx))))
    except Exception:
        ok = False
    return {"built": True,
            "first": bool(len(gx) > 0 and gx[0] == 1.0),
            "increasing": bool(np.all(np.diff(gx) > 0)),
            "hits": bool(ok and np.all(gx[m] == zp1)),
            "data": [val2abs[float(v)] for v, b in zip(gx, isdata) if b],
            "rank": [cum[int(i)] for i in m] if ok else ["invalid mask %r" % (getattr(L.data_mask, "tolist", lambda: L.data_mask)(),)]}


def trap_bound(np, gx, f2sup, X):
    """sum over the grid intervals below X of h^3/12 * sup|f''| (composite trapezoid rule on the actual grid)."""
    h = np.diff(gx)
    cumb = np.concatenate(([0.0], np.cumsum(h ** 3 / 12.0 * f2sup(gx[:-1], gx[1:]))))
    idx = np.clip(np.searchsorted(gx, X, side="right") - 1, 0, len(gx) - 1)
    return cumb[idx]


def mu_tolerance(np, I, B):
    """|5 log10(I_num / I)| for |I_num - I| <= B, larger side; inf where the bound does not decide."""
    with np.errstate(divide="ignore", invalid="ignore"):
        t = np.where(B < I, -5.0 * np.log10(1.0 - B / I), np.inf)
    return t + MU_TOL


# ----------------------------------------------------------------------------------------------------------
# (A) replay of Cache.tla behaviours
def trace_name(calls, upto=None):
    calls = calls if upto is None else calls[:upto + 1]
    return ".".join("C" if c["op"] == "clear" else "P" + "".join(str(k) for k in c["z"]) for c in calls)


def replay_trace(np, PanthLikelihood, calls, mapname):
    """Returns None or (index of failing call, field, text)."""
    conc = MAPS[mapname]
    L = make_like(PanthLikelihood, np)
    mu_c = float(getattr(L.mu_const, "value", L.mu_const))
    a0v = 2.0
    h2 = lambda xx, a0: a0 * xx ** 3
    f2sup = lambda xl, xr: 3.75 / math.sqrt(a0v) * xl ** -3.5          # |f''| of a0^-1/2 x^-3/2 decreases
    for n, c in enumerate(calls):
        if c["op"] == "clear":
            try:
                L.clear_data()
            except Exception as e:
                return n, "exception", "clear_data raised %r" % (e,)
            got = project(np, L, [], [])
        else:
            zp1 = np.array([1.0 + conc[k] for k in c["z"]])
            try:
                with warnings.catch_warnings():
                    warnings.simplefilter("ignore")
                    mu = as_float_array(np, L.get_pred(zp1, np.atleast_1d([a0v]), h2))
            except Exception as e:
                return n, "exception", "get_pred(zp1=%s) raised %r" % (zp1.tolist(), e)
            got = project(np, L, c["z"], zp1)
        want = c["obs"]
        for fld in ("built", "first", "increasing", "hits", "data", "rank"):
            if got[fld] != want[fld]:
                return n, fld, "after call %d the cache has %s = %s, Cache.tla says %s (sample %s -> 1+z = %s; data_x = %s, data_mask = %s)" % (
                    n + 1, fld, got[fld], want[fld], c["z"], [1.0 + conc[k] for k in c["z"]],
                    None if L.data_x is None else np.round(np.asarray(L.data_x, float), 6).tolist(),
                    None if L.data_mask is None else np.asarray(L.data_mask).tolist())
        if c["op"] == "predict":
            I = 2.0 / math.sqrt(a0v) * -np.expm1(-0.5 * np.log(zp1))
            ex = 5.0 * np.log10(zp1 * I) + mu_c
            B = trap_bound(np, np.asarray(L.data_x, float), f2sup, zp1)
            tol = mu_tolerance(np, I, B)
            if mu.shape != ex.shape or not np.all(np.abs(mu - ex) <= tol):
                return n, "mu", "call %d: get_pred(1+z = %s, H^2 = 2 x^3) = %s, defining integral gives %s, trapezoid bound of the grid %s mag" % (
                    n + 1, zp1.tolist(), mu.tolist(), ex.tolist(), tol.tolist())
    return None


def trace_class(calls):
    """(rebuild with another sample after a clear, some sample unsorted, some sample with repeated entries)"""
    last, cleared, rebuild = None, False, False
    uns = dup = False
    for c in calls:
        if c["op"] == "clear":
            cleared = True
        else:
            z = c["z"]
            if last is not None and cleared and z != last:
                rebuild = True
            last, cleared = z, False
            uns = uns or z != sorted(z)
            dup = dup or len(set(z)) < len(z)
    return rebuild, uns, dup


def cache_part(r, np, PanthLikelihood, tier):
    # spec sanity: without the usage protocol the model reuses the stale grid and MaskCorrect must fail
    res = tlc.must(tlc.run("Cache", "Cache_stale.cfg", constants={"NVals": "2", "MaxLen": "2", "MaxCalls": "2"}, workers=1), "Cache stale")
    r.add_tlc(res, "cache_model_without_protocol")
    if "MaskCorrect" not in res["violated"]:
        raise tlc.TLCError("Cache.tla without the usage protocol: MaskCorrect expected to fail (stale grid), got %s" % res["violated"])
    plans = [((3, 3, 4), ["A"]), ((4, 3, 3), ["A"]), ((5, 4, 2), ["A", "B"])] if tier == "quick" else \
        [((5, 3, 4), ["A"]), ((4, 4, 3), ["B"]), ((5, 4, 2), ["A", "B"])]
    for (nv, ml, mc), maps in plans:
        part = "cache_v%d_len%d_calls%d" % (nv, ml, mc)
        res = tlc.must(tlc.run("Cache", "Cache_mc.cfg", constants={"NVals": str(nv), "MaxLen": str(ml), "MaxCalls": str(mc)},
                               workers=4, heap="8g"), part)
        r.add_tlc(res, part)
        for v in res["violated"]:
            r.violation("model:" + v, "Cache.tla: %s violated for NVals=%d MaxLen=%d MaxCalls=%d: the cache design itself is wrong" % (v, nv, ml, mc))
        traces = sorted((j["calls"] for j in res["json"] if isinstance(j, dict) and "calls" in j),
                        key=lambda cs: (sum(len(c["z"]) for c in cs), trace_name(cs).replace("C", "~")))   # simplest failing prefix first
        nz = sum(nv ** k for k in range(1, ml + 1))
        cN, bN = 1, 1
        for _ in range(mc):
            cN, bN = nz * bN + cN, bN + cN
        if len(traces) != cN:
            raise tlc.TLCError("Cache.tla emitted %d behaviours, %d expected for %s" % (len(traces), cN, part))
        bad = nontriv = nreb = nuns = ndup = 0
        for mapname in maps:
            for calls in traces:
                reb, uns, dup = trace_class(calls)
                nreb += reb
                nuns += uns
                ndup += dup
                nontriv += 1 if (reb or uns or dup) else 0
                out = replay_trace(np, PanthLikelihood, calls, mapname)
                if out is not None:
                    bad += 1
                    if bad <= MAX_RECORDED:
                        n, fld, text = out
                        r.violation("cache:%s:%s:%s" % (mapname, fld, trace_name(calls, n)),
                                    "calls %s (map %s): %s" % (trace_name(calls, n), mapname, text),
                                    {"kind": "cache", "map": mapname, "calls": calls[:n + 1]})
        r.add(part, evaluations=sum(len(t) for t in traces) * len(maps), nontrivial=nontriv, traces=len(traces) * len(maps),
              behaviours=len(traces), maps=maps, rebuild_with_other_sample=nreb, unsorted_sample=nuns, repeated_entries=ndup,
              failing_traces=bad)
        if traces:
            half = traces[len(traces) // 2:]
            t = next((t for t in half if trace_class(t)[0] and t[-1]["op"] == "predict"), half[0])
            r.sample({"part": part, "calls": trace_name(t), "model_obs_after_last_call": t[-1]["obs"]})


# ----------------------------------------------------------------------------------------------------------
# (B) numerical clause
def families(np, mp):
    """name, ESR function string, parameter tuples, exact integral I(X; p) (mpmath), sup|f''| on [xl, xr] (numpy)."""
    F = []

    def power(name, fstr, k_of, params):
        def exact(X, p):
            k = mp.mpf(k_of(p))
            c = 1 / mp.sqrt(mp.mpf(p[0])) if p else mp.mpf(1)
            X = mp.mpf(X)
            return c * (mp.log(X) if k == 2 else (X ** (1 - k / 2) - 1) / (1 - k / 2))

        def f2sup(xl, xr, p):
            k = float(k_of(p))
            c = 1 / math.sqrt(p[0]) if p else 1.0
            e = -k / 2 - 2
            return c * abs((k / 2) * (k / 2 + 1)) * np.maximum(xl ** e, xr ** e)      # |f''| is a power: monotone
        F.append(dict(name=name, fstr=fstr, params=params, exact=exact, f2sup=f2sup))

    a0s = [(0.3,), (1.0,), (4900.0,)]
    power("const", "a0", lambda p: 0, a0s)
    power("a0*x", "a0*x", lambda p: 1, a0s)
    power("a0*x^2", "a0*square(x)", lambda p: 2, a0s)
    power("a0*x^3", "a0*cube(x)", lambda p: 3, a0s)
    power("a0*x^4", "a0*x**4", lambda p: 4, a0s)
    power("x^3 (no parameter)", "pow(x,3)", lambda p: 3, [()])
    power("1 (x/x: the antiderivative is x itself)", "x/x", lambda p: 0, [()])
    power("2 (no parameter, scalar)", "2", lambda p: 0, [()])
    F[-1]["exact"] = lambda X, p: (mp.mpf(X) - 1) / mp.sqrt(2)
    power("a0*x^a1", "a0*pow(x,a1)", lambda p: p[1], [(1.0, 2.5), (2.0, -1.0), (0.5, 3.3), (1.0, 2.0)])

    # H^2 = (a0 + a1 x)^-2 : f = a0 + a1 x is linear, the trapezoid rule is exact
    F.append(dict(name="(a0+a1*x)^-2", fstr="inv(square(a0+a1*x))", params=[(1.0, 0.5), (0.2, 2.0), (3.0, -0.5)],
                  exact=lambda X, p: mp.mpf(p[0]) * (mp.mpf(X) - 1) + mp.mpf(p[1]) * (mp.mpf(X) ** 2 - 1) / 2,
                  f2sup=lambda xl, xr, p: 0.0 * xl))
    # H^2 = (a0 + a1 x)^2 : f = 1/g, f'' = 2 a1^2 / g^3, g monotone and positive
    # (the last parameter pair has a0 + a1 x < 0 on the whole range: H^2 is the same smooth positive function as for (5, -1))
    F.append(dict(name="(a0+a1*x)^2", fstr="square(a0+a1*x)", params=[(1.0, 0.5), (0.2, 2.0), (3.0, -0.5), (-5.0, 1.0)],
                  exact=lambda X, p: abs(mp.log((mp.mpf(p[0]) + mp.mpf(p[1]) * mp.mpf(X)) / (mp.mpf(p[0]) + mp.mpf(p[1]))) / mp.mpf(p[1])),
                  f2sup=lambda xl, xr, p: 2 * p[1] ** 2 / np.minimum(np.abs(p[0] + p[1] * xl), np.abs(p[0] + p[1] * xr)) ** 3))
    # the one-parameter form sympy integrates to a Piecewise of logarithms
    F.append(dict(name="(a0+x)^2", fstr="pow(a0+x,2)", params=[(5.0,), (-5.0,)],
                  exact=lambda X, p: abs(mp.log((mp.mpf(p[0]) + mp.mpf(X)) / (mp.mpf(p[0]) + 1))),
                  f2sup=lambda xl, xr, p: 2 / np.minimum(np.abs(p[0] + xl), np.abs(p[0] + xr)) ** 3))
    # H^2 = a0 x^2 + a1 (a0 > 0, positive on x >= 1 also for some a1 < 0): g increasing, f'' = -a0 g^-3/2 + 3 a0^2 x^2 g^-5/2
    quad = dict(exact=lambda X, p: (mp.log(mp.sqrt(p[0]) * mp.mpf(X) + mp.sqrt(p[0] * mp.mpf(X) ** 2 + p[1])) - mp.log(mp.sqrt(p[0]) + mp.sqrt(mp.mpf(p[0]) + p[1]))) / mp.sqrt(p[0]),
                f2sup=lambda xl, xr, p: p[0] * (p[0] * xl ** 2 + p[1]) ** -1.5 + 3 * p[0] ** 2 * xr ** 2 * (p[0] * xl ** 2 + p[1]) ** -2.5)
    F.append(dict(name="a0*x^2+a1", fstr="a0*square(x)+a1", params=[(1.0, 0.5), (2.0, 3.0), (1.0, -0.5)], **quad))
    F.append(dict(name="a0+x^2", fstr="a0+square(x)", params=[(0.5,), (-0.5,)],
                  exact=lambda X, p: quad["exact"](X, (1.0, p[0])), f2sup=lambda xl, xr, p: quad["f2sup"](xl, xr, (1.0, p[0]))))
    # H^2 = x (a0 + x): g = x^2 + a0 x increasing, f'' = -g^-3/2 + 3/4 (2x + a0)^2 g^-5/2
    F.append(dict(name="x*(a0+x)", fstr="x*(a0+x)", params=[(2.0,), (0.5,)],
                  exact=lambda X, p: mp.log(2 * mp.mpf(X) + p[0] + 2 * mp.sqrt(mp.mpf(X) ** 2 + p[0] * mp.mpf(X))) - mp.log(2 + p[0] + 2 * mp.sqrt(1 + mp.mpf(p[0]))),
                  f2sup=lambda xl, xr, p: (xl ** 2 + p[0] * xl) ** -1.5 + 0.75 * (2 * xr + p[0]) ** 2 * (xl ** 2 + p[0] * xl) ** -2.5))
    # H^2 = a0 + a1 x^3 (LambdaCDM), a0, a1 > 0: f'' = -3 a1 x g^-3/2 + 27/4 a1^2 x^4 g^-5/2, g increasing
    F.append(dict(name="a0+a1*x^3", fstr="a0+a1*cube(x)", params=[(0.7, 0.3), (3430.0, 1470.0), (0.1, 2.0)],
                  exact=lambda X, p: mp.quad(lambda t: 1 / mp.sqrt(mp.mpf(p[0]) + mp.mpf(p[1]) * t ** 3), mp.linspace(1, mp.mpf(X), 4)),
                  f2sup=lambda xl, xr, p: 3 * p[1] * xr * (p[0] + p[1] * xl ** 3) ** -1.5 + 6.75 * p[1] ** 2 * xr ** 4 * (p[0] + p[1] * xl ** 3) ** -2.5))
    # H^2 = a0 exp(a1 x): f = a0^-1/2 exp(-a1 x / 2), f'' = a1^2/4 f, monotone
    F.append(dict(name="a0*exp(a1*x)", fstr="a0*exp(a1*x)", params=[(1.0, 1.0), (2.0, 0.3), (1.0, -0.5)],
                  exact=lambda X, p: (mp.e ** (-mp.mpf(p[1]) / 2) - mp.e ** (-mp.mpf(p[1]) * mp.mpf(X) / 2)) * 2 / mp.mpf(p[1]) / mp.sqrt(mp.mpf(p[0])),
                  f2sup=lambda xl, xr, p: p[1] ** 2 / 4 / math.sqrt(p[0]) * np.maximum(np.exp(-p[1] * xl / 2), np.exp(-p[1] * xr / 2))))
    return F


def samples(np, tier):
    rng = np.random.default_rng(evidence.seed())
    A = lambda k: 1.0 + MAPS["A"][k]
    n = 150 if tier == "quick" else 1590
    z = np.round(np.exp(rng.uniform(np.log(0.0101), np.log(2.26), n)), 4)
    z = np.concatenate((z, z[:n // 10]))                         # repeated redshifts, as in the catalogue
    rng.shuffle(z)
    S = [("sorted", [A(k) for k in (1, 2, 3, 4, 5)]),
         ("unsorted", [A(3), A(1), A(5), A(2)]),
         ("repeated", [A(2), A(2), A(4), A(2)]),
         ("single", [A(3)]),
         ("all_equal", [A(4)] * 3),
         ("descending_wide", [1.0 + v for v in reversed(MAPS["B"][1:])]),
         ("catalogue_like_%d" % len(z), (1.0 + z).tolist())]
    if tier != "quick":
        z2 = np.round(rng.uniform(0.0101, 1.5, 40), 3)
        S.append(("uniform_40", (1.0 + z2).tolist()))
    return S


def lambdify_as_fit(sympy, syms, fstr, eq, nparam):
    """test_all.py:155-171 / match.py / plot.py"""
    x, a0 = syms
    if "a0" not in fstr:
        return sympy.lambdify(x, eq, modules=["numpy"])
    if nparam > 1:
        all_a = list(sympy.symbols(' '.join('a%d' % i for i in range(nparam)), real=True))
        return sympy.lambdify([x] + all_a, eq, modules=["numpy"])
    return sympy.lambdify([x, a0], eq, modules=["numpy"])


def numeric_case(np, mp, L, fam, p, zp1, eq_num, eq_an):
    """Returns (list of (path, text), stats) for one (family, parameters, sample)."""
    out = []
    a = np.atleast_1d(np.array(p, dtype=float))
    mu_c = float(getattr(L.mu_const, "value", L.mu_const))
    L.clear_data()                                              # usage protocol: new sample -> clear first
    try:
        with warnings.catch_warnings():
            warnings.simplefilter("ignore")
            mu = as_float_array(np, L.get_pred(zp1, a, eq_num))
    except Exception as e:
        return [("numeric", "get_pred raised %r" % (e,))], None
    gx = np.asarray(L.data_x, dtype=float)
    if mu.shape != zp1.shape or not np.all(np.diff(gx) > 0) or not np.all(np.isin(zp1, gx)):
        return [("grid", "grid not increasing / data point missing / %d predictions for %d redshifts" % (mu.size, zp1.size))], None
    # "its grid": min_nz nodes on [1, min(1+z)] and nodes delta_z apart above (linspace(.., ceil(range / delta_z)) gives a spacing below
    # 2 delta_z for every range); a grid coarser than twice its nominal spacing is not the object's grid any more
    lo_h = (zp1.min() - 1.0) / max(1, L.min_nz - 1)
    gaps = np.diff(gx)
    upper = gaps[gx[:-1] >= zp1.min()]
    if (gaps[gx[:-1] < zp1.min()] > 2 * max(lo_h, 1e-300) * (1 + 1e-9)).any() or (upper.size and upper[gx[:-1][gx[:-1] >= zp1.min()] < zp1.max()].max(initial=0.0) > 2 * L.delta_z * (1 + 1e-9)):
        out.append(("grid_spacing", "integration grid for a sample spanning 1+z in [%.4g, %.4g] has gaps up to %.4g above the first data point (delta_z = %.3g) and %.4g below it (min_nz = %d)" % (
            zp1.min(), zp1.max(), upper.max(initial=0.0), L.delta_z, gaps[gx[:-1] < zp1.min()].max(initial=0.0), L.min_nz)))
    ux = np.unique(zp1)
    Iu = {float(v): fam["exact"](float(v), p) for v in ux}
    I = np.array([float(Iu[float(v)]) for v in zp1])
    ex = np.array([float(5 * mp.log10(mp.mpf(float(v)) * Iu[float(v)])) for v in zp1]) + mu_c
    B = trap_bound(np, gx, lambda xl, xr: fam["f2sup"](xl, xr, p), zp1)
    tol = mu_tolerance(np, I, B)
    decided = np.isfinite(tol)
    err = np.abs(mu - ex)
    bad = decided & ~(err <= tol)
    if bad.any():
        i = int(np.argmax(np.where(bad, err - tol, -np.inf)))
        out.append(("numeric", "1+z = %.6g: get_pred = %.12g, 5 log10[(1+z) I] + const = %.12g (I = %.12g), |difference| = %.3g mag > trapezoid bound of the grid %.3g mag (%d of %d points)" % (
            zp1[i], mu[i], ex[i], I[i], err[i], tol[i], int(bad.sum()), len(zp1))))
    stats = {"decided": int(decided.sum()), "max_err_mag": float(err.max()), "max_tol_mag": float(tol[decided].max()) if decided.any() else None,
             "max_err_over_bound": float(np.max(err[decided] / tol[decided])) if decided.any() else None, "grid_nodes": int(len(gx)),
             "curved": bool(np.any(B > 0))}
    if eq_an is not None:
        try:
            with warnings.catch_warnings():
                warnings.simplefilter("ignore")
                zarg = zp1.copy()
                raw = L.get_pred(zarg, a, eq_an, integrated=True)
                if not np.array_equal(zarg, zp1):
                    out.append(("analytic", "get_pred(integrated=True) overwrote the redshift array it was given (1+z = %s became %s): every later prediction on the same data is wrong" % (zp1[:3], zarg[:3])))
                raw = np.atleast_1d(np.asarray(getattr(raw, "value", raw)))
                if np.iscomplexobj(raw):
                    raw = np.where(np.abs(raw.imag) <= 1e-12 * np.maximum(1.0, np.abs(raw.real)), raw.real, np.nan)      # a complex prediction is rejected by negloglike (inf)
                mu_an = raw.astype(float)
            if mu_an.shape != mu.shape:
                mu_an = np.broadcast_to(mu_an, mu.shape)
            d = np.abs(mu_an - mu)
            badan = decided & ~(d <= tol)
            if badan.any():
                i = int(np.argmax(np.where(badan, d - tol, -np.inf)))
                out.append(("analytic", "1+z = %.6g: analytically integrated path gives %.12g, numerical path %.12g (defining integral %.12g), |difference| = %.3g mag > trapezoid bound %.3g mag (%d of %d points)" % (
                    zp1[i], mu_an[i], mu[i], ex[i], d[i], tol[i], int(badan.sum()), len(zp1))))
            stats["max_analytic_minus_exact_mag"] = float(np.nanmax(np.abs(mu_an - ex)))
        except NameError as e:
            # a special function numpy does not have: the fitting stages catch NameError and redo the function on the numerical path
            # (test_all.py:385-398, test_all_Fisher.py:285-290), which is the path judged above
            stats["analytic_fallback_nameerror"] = repr(e)
        except Exception as e:
            out.append(("analytic", "get_pred(integrated=True) raised %r" % (e,)))
    return out, stats


def numeric_part(r, np, PanthLikelihood, tier, only=None):
    import mpmath as mp
    import sympy
    from esr.fitting.sympy_symbols import x, a0
    mp.mp.dps = 30
    L = make_like(PanthLikelihood, np)
    S = samples(np, tier)
    tmax = 60
    nev = nontriv = nan_paths = 0
    worst, integ = {}, {}
    for fam in families(np, mp):
        if only and fam["name"] != only["family"]:
            continue
        nparam = len(fam["params"][0])
        fcn, eq, flag = L.run_sympify(fam["fstr"], tmax=tmax, try_integration=False)
        if flag:
            r.violation("sympify:%s" % fam["name"], "run_sympify(%r, try_integration=False) reports integrated=True" % fam["fstr"], {"kind": "numeric", "family": fam["name"]})
        eq_num = lambdify_as_fit(sympy, (x, a0), fcn, eq, nparam)
        fcn2, eq2, integrated = L.run_sympify(fam["fstr"], tmax=tmax, try_integration=True)
        integ[fam["name"]] = bool(integrated)
        eq_an = lambdify_as_fit(sympy, (x, a0), fcn2, eq2, nparam) if integrated else None
        for p in fam["params"]:
            nbad = 0
            for sname, zs in S:
                if only and (list(p) != list(only["params"]) or sname != only["sample"]):
                    continue
                if fam["name"].startswith("a0+a1*x^3") and len(zs) > 300:
                    zs = zs[:300]                                # mp.quad per point
                zp1 = np.array(zs, dtype=float)
                out, st = numeric_case(np, mp, L, fam, p, zp1, eq_num, eq_an)
                nev += 1 + (1 if eq_an is not None else 0)
                nan_paths += 1 if eq_an is not None else 0
                if st:
                    if st["curved"] and sname not in ("sorted", "single"):
                        nontriv += 1
                    w = worst.setdefault(fam["name"], {"max_err_mag": 0.0, "max_err_over_bound": 0.0})
                    w["max_err_mag"] = max(w["max_err_mag"], st["max_err_mag"])
                    w["max_err_over_bound"] = max(w["max_err_over_bound"], st["max_err_over_bound"] or 0.0)
                    if "max_analytic_minus_exact_mag" in st:
                        w["max_analytic_minus_exact_mag"] = max(w.get("max_analytic_minus_exact_mag", 0.0), st["max_analytic_minus_exact_mag"])
                    if fam["name"] in ("a0*x^3", "a0+a1*x^3") and sname == "unsorted" and p == fam["params"][0]:
                        r.sample({"H2": fam["fstr"], "params": list(p), "one_plus_z": zs, "grid_nodes": st["grid_nodes"],
                                  "max_error_mag": st["max_err_mag"], "bound_mag": st["max_tol_mag"], "analytic_path": bool(eq_an is not None)})
                for path, text in out:
                    nbad += 1
                    if nbad <= 3:
                        r.violation("%s:%s:%s:%s" % (path, fam["name"], ",".join("%g" % v for v in p), sname),
                                    "H^2 = %s, parameters %s, sample %s (%d redshifts): %s" % (fam["fstr"], list(p), sname, len(zs), text),
                                    {"kind": "numeric", "family": fam["name"], "params": list(p), "sample": sname, "tier": tier,
                                     "one_plus_z": zs if len(zs) <= 12 else "samples(tier)[%r] with VERIF_SEED=%d" % (sname, evidence.seed())})
    # H^2 without a closed-form antiderivative (sympy factors a prefactor out of an unevaluated Integral): run_sympify must either
    # report integrated=False, or hand back something the analytic path can evaluate and that agrees with the numerical path
    if not only:
        zp1 = np.array([1.0 + MAPS["A"][k] for k in (3, 1, 5, 2)], dtype=float)
        for fstr, p in (("square(a0)*(x*x*x+a1)", (1.3, 0.4)), ("a0*(x+exp(x))", (0.7,)), ("inv(a0)*(x+exp(x))", (2.0,)), ("a0*x*x*x+a1", (0.3, 0.7)), ("x+exp(x)", ())):
            nparam = len(p)
            key = "analytic_unintegrable:%s" % fstr
            try:
                fcn, eq, flag = L.run_sympify(fstr, tmax=tmax, try_integration=False)
                eq_num = lambdify_as_fit(sympy, (x, a0), fcn, eq, nparam)
                L.clear_data()
                mu_num = as_float_array(np, L.get_pred(zp1.copy(), np.array(p), eq_num, integrated=False))
                fcn2, eq2, integrated = L.run_sympify(fstr, tmax=tmax, try_integration=True)
            except Exception as e:
                r.violation(key, "H^2 = %s, unsorted sample %s: the numerical path raised %r" % (fstr, zp1.tolist(), e), {"kind": "numeric", "fstr": fstr})
                continue
            nev += 1
            if not integrated:
                # the fall-back: what comes back is H^2 itself, to be integrated numerically - the same prediction as without the attempt
                try:
                    L.clear_data()
                    mu_fb = as_float_array(np, L.get_pred(zp1.copy(), np.array(p), lambdify_as_fit(sympy, (x, a0), fcn2, eq2, nparam), integrated=False))
                    if not np.all(np.isfinite(mu_fb)) or float(np.max(np.abs(mu_fb - mu_num))) > 1e-9:
                        r.violation(key + ":fallback", "H^2 = %s: after a failed analytic attempt run_sympify hands back %s (integrated=False), whose numerical prediction %s differs from the prediction without the attempt %s" % (
                            fstr, eq2, mu_fb, mu_num), {"kind": "numeric", "fstr": fstr})
                except Exception as e:
                    r.violation(key + ":fallback", "H^2 = %s: after a failed analytic attempt the numerical path raised %r" % (fstr, e), {"kind": "numeric", "fstr": fstr})
            if integrated:
                try:
                    eq_an = lambdify_as_fit(sympy, (x, a0), fcn2, eq2, nparam)
                    mu_an = as_float_array(np, L.get_pred(zp1.copy(), np.array(p), eq_an, integrated=True))
                    if not np.all(np.isfinite(mu_an)) or float(np.max(np.abs(mu_an - mu_num))) > 5e-3:
                        r.violation(key, "H^2 = %s: run_sympify reports an analytic integral but its distance modulus %s differs from the numerical path %s" % (fstr, mu_an, mu_num),
                                    {"kind": "numeric", "fstr": fstr})
                except Exception as e:
                    r.violation(key, "H^2 = %s: run_sympify(try_integration=True) reports integrated=True for %s, which the analytic path cannot evaluate: %r" % (fstr, eq2, e),
                                {"kind": "numeric", "fstr": fstr})
            integ["unintegrable:" + fstr] = bool(integrated)
    r.add("numeric", evaluations=nev, nontrivial=nontriv, analytic_path_cases=nan_paths, analytically_integrated=integ, per_family=worst)
    return integ


# ----------------------------------------------------------------------------------------------------------
def run(tier, replay=None):
    r = evidence.Run(PID, tier, "exploration")
    s = scratch.make()
    scratch.activate(s)
    import numpy as np
    from esr.fitting.likelihood import PanthLikelihood
    if replay:
        obj = json.load(open(replay))["replay"]
        if obj["kind"] == "cache":
            out = replay_trace(np, PanthLikelihood, obj["calls"], obj["map"])
            if out is not None:
                r.violation("cache:%s:%s:%s" % (obj["map"], out[1], trace_name(obj["calls"], out[0])), out[2], obj)
            r.add("replay", evaluations=len(obj["calls"]), traces=1)
        else:
            numeric_part(r, np, PanthLikelihood, obj.get("tier", tier), only=obj)
        return r.finish(exhaustive=False)
    cache_part(r, np, PanthLikelihood, tier)
    integ = numeric_part(r, np, PanthLikelihood, tier)
    r.cov["rule"] = ("cache: every behaviour of Cache.tla with MaxCalls calls Predict(Z)/Clear (Z any sequence over NVals abstract redshifts, length <= MaxLen, "
                     "usage protocol: a built cache is asked only for its own sample) replayed into a PanthLikelihood object; after every call the "
                     "projection (built, first node = 1, strictly increasing, mask hits its data point, data values in grid order, data-rank of each mask "
                     "entry) must equal Cache!Obs and the returned mu (H^2 = 2 x^3) must lie within the trapezoid bound; non-trivial = behaviours that rebuild "
                     "with another sample after a Clear or use an unsorted / repeated sample.  numeric: (family, parameters, sample) with "
                     "|mu - mu_exact| <= -5 log10(1 - B/I) + 1e-9, B = sum h^3/12 sup|f''| over the actual grid below the point, and analytic path vs numerical "
                     "path within the same bound when run_sympify integrated; non-trivial = f'' != 0 and the sample is unsorted, repeated or catalogue-like")
    r.assumptions += ["P3: exact integrals evaluated with mpmath at 30 digits (closed forms; mp.quad for a0 + a1 x^3); sup|f''| per interval from monotonicity of each family",
                      "instance built with object.__new__ and the attributes of likelihood.py:208-214 (the Pantheon files are emptied)",
                      "whether sympy integrates within tmax = 60 s is recorded, not judged: " + json.dumps(integ)]
    return r.finish(exhaustive=False)
