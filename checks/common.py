"""Shared pieces of the checks: library generation with verdict handling, Library.tla judging."""
import os, json
from harness import lib, coord, libproj, tlc, bases


def gen_library(run, s, name, n, basis=None, P=1, **kw):
    """Generate a library in scratch s.  Returns Library or None (a crash of the code under test is a
    violation of the calling property, keyed by (basis, n, P))."""
    res = lib.generate(s, name, n, basis=basis, P=P, **kw)
    if res["status"] != "ok":
        tail = coord.tail(res["out"][min(res["out"])], 12)
        failing = [r for r, c in res["exit"].items() if c not in (0, 86)]
        if failing:
            tail = coord.tail(res["out"][failing[0]], 12)
        key = "gen_crash:%s:n%d:P%d" % (name, n, P)
        if basis is not None and "a" not in basis[0] and "no symbols given" in tail:
            key = "gen_crash:parameter_free_basis"
        run.violation(key,
                      "generation of %s n=%d with %d rank(s) did not complete: %s %s\n%s" % (name, n, P, res["status"], res["detail"], tail),
                      {"runname": name, "n": n, "P": P, "basis": basis})
        return None, res
    return lib.Library(s, name, n), res


def judge_library(run, L, part, clauses_of_interest=None, want_code=False, c02=True, c03=True, full=True, seed=0):
    """Project library L, let TLC (Library.tla) judge it.  Returns (events, failed, details, codes)."""
    ev, det = libproj.events(L, full=full, want_code=want_code, c02=c02, c03=c03, seed=seed)
    res, failed = tlc.judge("Library", ev, heap="8g")
    run.add_tlc(res, "judge_" + part)
    codes = {j["id"]: j["code"] for j in res["json"] if isinstance(j, dict) and "code" in j}
    if clauses_of_interest is not None:
        failed = {i: [c for c in cl if c in clauses_of_interest] for i, cl in failed.items()}
        failed = {i: cl for i, cl in failed.items() if cl}
    return ev, failed, det, codes


C02_CLAUSES = {"trees_vs_functions", "orig_plus_extra", "tree_well_formed", "generation_reading", "fitting_reading"}
C03_CLAUSES = {"matches_vs_functions", "maps_vs_functions", "trees_vs_functions", "unique_repeated", "unique_params_contiguous",
               "match_in_range", "unrecoverable_needs_fewer_params", "unrecoverable_same_family", "map_exact",
               "unique_has_more_params"}
C08_CLAUSES = {"treecode_vs_trees", "orig_plus_extra"}


def selftest_library(run, ev, what):
    """Binding self-test: corrupted traces must be rejected by TLC (exit 2 otherwise)."""
    import copy
    lines = [e for e in ev if e["kind"] == "line"]
    muts = []
    if what == "C03":
        cand = [e for e in lines if e["full"] and not e["lost"] and e["exact"] == 1]
        if cand:
            m = copy.deepcopy(ev); m[cand[0]["id"]]["exact"] = 0; muts.append(("exact flag", m, cand[0]["id"]))
            m = copy.deepcopy(ev); m[cand[-1]["id"]]["match"] = 10 ** 6; muts.append(("match out of range", m, cand[-1]["id"]))
        u = [e for e in ev if e["kind"] == "uniq"]
        if len(u) > 1:
            m = copy.deepcopy(ev); m[u[1]["id"]]["sid"] = u[0]["sid"]; muts.append(("repeated unique", m, u[1]["id"]))
        m = copy.deepcopy(ev); m[0]["nmatch"] += 1; muts.append(("dropped match line", m, 0))
    if what == "C02":
        cand = [e for e in lines if e["clsTree"] >= 0 and e["clsGen"] == e["clsTree"]]
        if cand:
            m = copy.deepcopy(ev); m[cand[0]["id"]]["clsFit"] += 1; muts.append(("fit class", m, cand[0]["id"]))
        m = copy.deepcopy(ev); m[0]["nfun"] -= 1; muts.append(("dropped function line", m, 0))
    for name, m, idx in muts:
        _, failed = tlc.judge("Library", m, heap="8g")
        if idx not in failed:
            raise tlc.TLCError("binding self-test: corrupted trace (%s) accepted by Library.tla" % name)
    run.add("selftest", evaluations=len(muts), corrupted_traces_rejected=len(muts))


def model_codes(run, label_lists, part="codes"):
    """Trees!Code (k, nsym, consts) of arbitrary label lists, computed by TLC (Library.tla returns the model's code per line)"""
    from harness import p1
    ev = [{"id": 0, "kind": "header", "ntrees": 0, "nfun": 0, "norig": 0, "nextra": 0, "naifeyn": 0, "nuniq": 0, "nmatch": 0, "nsubs": 0, "full": False}]
    for k, lab in enumerate(label_lists):
        ev.append({"id": k + 1, "kind": "line", "i": k, "labels": list(lab), "wantCode": True, "full": False, "clsTree": -1, "clsGen": -1, "clsFit": -1,
                   "match": -1, "kF": 0, "kU": 0, "lost": False, "exact": -1, "family": -1, "ar": [0]})
    res, failed = tlc.judge("Library", ev, heap="4g")
    run.add_tlc(res, part)
    codes = {j["id"] - 1: j["code"] for j in res["json"] if isinstance(j, dict) and "code" in j}
    return [codes[k] for k in range(len(label_lists))]


def prove(run, module, tier, what, selftests=()):
    """TLAPS proof of a spec module (unbounded counterpart of what TLC checks in bounds).  selftests: [(file, old, new)] definition
    changes that must make the proof fail (thorough tier)."""
    from harness import tlaps
    pr = tlaps.prove(module)
    part = {"tlaps_obligations": pr["obligations"], "tlaps_failed": pr["failed"], "tlaps_wall_s": pr["wall_s"]}
    run.cov.setdefault("parts", {})["proofs_" + module] = part
    if not pr["ok"]:
        run.violation("proof:" + module, "TLAPS no longer proves %s.tla (%d of %d obligations failed): %s" % (module, pr["failed"], pr["obligations"], what))
    if tier == "thorough" and selftests:
        for f, old, new in selftests:
            if tlaps.prove(module, patch={f: (old, new)})["ok"]:
                raise RuntimeError("self-test: TLAPS still proves %s with the definition changed (%s -> %s)" % (module, old, new))
        part["selftest_changed_definitions_rejected"] = len(selftests)
    return pr
