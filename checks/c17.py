"""C17 Parameter-map bookkeeping: file round trip and inverse-pair cancellation."""
import csv, io, contextlib, glob, json, os, random
from harness import scratch, tlc, evidence, coord, lib, libproj, p1
from checks import common

PID = "C17"


def _g(t, j, c=1):
    return '[t |-> "%s", j |-> %d, c |-> %d]' % (t, j, c)


THETAS = "{<<<<2,1>>,<<3,1>>>>, <<<<-1,2>>,<<3,2>>>>, <<<<5,3>>,<<-2,1>>>>}"
FISH = "{<<<<3,1>>,<<1,1>>,<<2,1>>>>, <<<<12,1>>,<<-2,1>>,<<5,1>>>>}"


def _texts():
    """templates -> the text the simplifier records (built with the same sympy calls, str of a dict of symbols)"""
    import sympy
    a0, a1 = sympy.symbols("a0 a1", real=True)
    return {("neg", 0, 1): str({a0: -a0}), ("neg", 1, 1): str({a1: -a1}), ("inv", 0, 1): str({a0: 1 / a0}), ("inv", 1, 1): str({a1: 1 / a1}),
            ("swap", 0, 1): str({a1: a0, a0: a1}), ("swap", 1, 1): str({a0: a1, a1: a0}), ("scale", 0, 2): str({a0: a0 / 2}),
            ("scale", 1, 3): str({a1: a1 / 3}), ("sq", 0, 1): str({a0: a0 ** 2})}


def _cancel(r, simp, tier):
    gens = [("neg", 0, 1), ("neg", 1, 1), ("inv", 0, 1), ("swap", 0, 1), ("swap", 1, 1), ("scale", 0, 2)]
    ml = 4 if tier == "quick" else 5
    res = tlc.must(tlc.run("Subs", "Subs_cancel.cfg", constants={"KP": "2", "Gens": "{%s}" % ", ".join(_g(*g) for g in gens), "MaxLen": str(ml),
                                                               "Thetas": THETAS, "Fishers": FISH}, workers=8), "Subs cancel")
    r.add_tlc(res, "subs_cancel_model")
    for v in res["violated"]:
        r.violation("model:" + v, "Subs.tla invariant %s violated (design of the cancellation)" % v)
    # chains of any length (TLAPS): deleting two adjacent entries that compose to the identity anywhere in a chain preserves the composition,
    # and only such deletions do; Subs!ApplyHom (checked by TLC above) is the homomorphism law the proof assumes
    common.prove(r, "SubsProofs", tier, "cancelling a pair of equal self-inverse substitutions preserves the composition of a chain of any length", selftests=[
        ("SubsProofs.tla", "NEW w \\in Seq(G), Comp(w) = Id", "NEW w \\in Seq(G), Comp(w) \\in G")])      # deleting an arbitrary sub-chain must NOT be provable
    text = _texts()
    back = {v: k for k, v in text.items()}
    dup = simp.get_all_dup(2)
    cases = []
    for c in res["json"]:
        chain = [text[(g["t"], g["j"], g["c"])] for g in c["chain"]]
        out = simp.simplify_inv_subs(list(chain), dup)
        out = [] if out is None else list(out)
        if any(o not in back for o in out):
            r.violation("cancel:foreign:%s" % "|".join(chain), "simplify_inv_subs(%s) returned %s with an element that is not in the input" % (chain, out), {"chain": chain})
            continue
        cases.append({"id": len(cases), "kind": "cancel", "chain": c["chain"], "out": [dict(t=back[o][0], j=back[o][1], c=back[o][2]) for o in out],
                      "text": chain, "out_text": out})
    # every member of get_all_dup(k) must be an involution under the composition convert_params uses
    import numpy as np
    for k in (1, 2, 3, 4):
        for d in simp.get_all_dup(k):
            sub = libproj.parse_sub(d)
            th = [np.array([1.7, -0.6]), np.array([-0.9, 2.3]), np.array([0.45, -1.3]), np.array([2.2, 0.8])][:max(k, 1)]
            env, ok = libproj.compose([sub, sub], th)
            inv = bool(all(np.allclose(e, t, rtol=1e-12) for e, t in zip(env, th)))
            cases.append({"id": len(cases), "kind": "dup", "involution": inv, "text": d, "k": k})
    jres, failed = tlc.judge("SubsJudge", cases, heap="8g")
    r.add_tlc(jres, "subs_judge_cancel")
    for i, cl in sorted(failed.items())[:10]:
        c = cases[i]
        r.violation("cancel:%s:%s" % (",".join(cl), "|".join(c.get("text", [])) if c["kind"] == "cancel" else c["text"]),
                    "%s violates %s: input %s output %s" % (c["kind"], cl, c.get("text"), c.get("out_text")), c)
    nontriv = sum(1 for c in cases if c["kind"] == "cancel" and len(c["out"]) < len(c["chain"]))
    r.add("cancel", evaluations=len(cases), nontrivial=nontriv, traces=len(cases))
    ex = next(c for c in cases if c["kind"] == "cancel" and 0 < len(c["out"]) < len(c["chain"]))
    r.sample({"chain": ex["text"], "after_cancellation": ex["out_text"]})


def _template(text, ids):
    """P4: a substitution text -> template record; self-inverse shapes are recognised syntactically"""
    import re
    t = text.strip()
    m = re.fullmatch(r"\{a(\d): -a\1\}", t)
    if m:
        return {"t": "neg", "j": int(m.group(1)), "c": 1}
    m = re.fullmatch(r"\{a(\d): 1/a\1\}", t)
    if m:
        return {"t": "inv", "j": int(m.group(1)), "c": 1}
    m = re.fullmatch(r"\{a(\d): a(\d), a\2: a\1\}", t)
    if m:
        return {"t": "swap", "j": 10 * int(m.group(1)) + int(m.group(2)), "c": 1}
    return {"t": "lost" if t == "nan" else "scale", "j": 0, "c": ids.setdefault(t, len(ids) + 2)}


def _concat_law(r, L, name, n):
    """final map file = Cancel(concatenation of the round files), row by row (bookkeeping law)"""
    import numpy as np
    nf = len(L.all_eq)
    rounds = []
    k = 0
    while os.path.exists(os.path.join(L.dir, "inv_subs_%d_round_%d.txt" % (n, k))):
        rows = [[e for e in row if e.strip()] for row in csv.reader(open(os.path.join(L.dir, "inv_subs_%d_round_%d.txt" % (n, k))), delimiter=";")]
        idxf = os.path.join(L.dir, "inv_idx_%d_round_%d.txt" % (n, k))
        idx = [int(x) for x in open(idxf).read().split()]
        per = [[] for _ in range(nf)]
        if len(idx) != len(rows):
            r.violation("rounds:%s:n%d:round%d" % (name, n, k), "round %d: %d indices but %d map rows" % (k, len(idx), len(rows)), {"runname": name, "n": n})
        for i, row in zip(idx, rows):
            per[i] = row
        rounds.append(per)
        k += 1
    ids, cases = {}, []
    for i in range(nf):
        final = [e for e in L.inv_subs[i] if e.strip()]
        pieces = [rd[i] for rd in rounds]
        # rounds are only written for the rounds this run performed: stale files of an earlier run with more rounds are not read by the code either
        unmerged = (not final) and any(pieces) and L.uniq[L.matches[i]] == L.all_eq[i]
        cases.append({"id": i, "kind": "concat", "rounds": [[_template(e, ids) for e in p] for p in pieces], "final": [_template(e, ids) for e in final],
                      "unmerged": bool(unmerged), "text": pieces, "final_text": final})
    return cases


def _harvest(r, s, tier):
    """every distinct substitution text the simplifier really emitted, from the round files of generated libraries"""
    texts = {}
    libs = [("core_maths", 5), ("ext_maths", 4), ("keep_duplicates", 3)] if tier == "quick" else \
        [("core_maths", 5), ("core_maths", 6), ("ext_maths", 4), ("ext_maths", 5), ("keep_duplicates", 4), ("base_e_maths", 5), ("base10_maths", 4), ("osc_maths", 4)]
    for name, n in libs:
        L, _ = common.gen_library(r, s, name, n)
        if L is None:
            continue
        cc = _concat_law(r, L, name, n)
        jres, failed = tlc.judge("SubsJudge", cc, heap="8g")
        r.add_tlc(jres, "concat_%s_n%d" % (name, n))
        for i, cl in sorted(failed.items())[:5]:
            r.violation("concat:%s:n%d:line%d" % (name, n, i), "function %d: final map row %s is not Cancel(concatenated round rows %s): %s" % (i, cc[i]["final_text"], cc[i]["text"], cl),
                        {"runname": name, "n": n, "line": i})
        r.add("concat_law", evaluations=len(cc), nontrivial=sum(1 for c in cc if sum(len(p) for p in c["rounds"]) > len(c["final"])), traces=1)
        for f in sorted(glob.glob(os.path.join(L.dir, "inv_subs_%d_round_*.txt" % n))) + [os.path.join(L.dir, "inv_subs_%d.txt" % n)]:
            for row in csv.reader(open(f), delimiter=";"):
                for el in row:
                    if el.strip():
                        texts.setdefault(el, (name, n))
    return texts


import re as _re


def _key_texts(el):
    """the key texts of '{k1: v1, k2: v2}' (split at depth 0)"""
    body = el.strip()[1:-1]
    parts, depth, cur = [], 0, ""
    for ch in body:
        if ch in "([{":
            depth += 1
        elif ch in ")]}":
            depth -= 1
        if ch == "," and depth == 0:
            parts.append(cur)
            cur = ""
        else:
            cur += ch
    if cur.strip():
        parts.append(cur)
    return [p.split(":", 1)[0] for p in parts]


def _roundtrip(r, s, tier):
    import numpy as np
    texts = _harvest(r, s, tier)
    # plus the forms the emitting statements of sympy_simplify produce, built with the same sympy objects
    # (simplifier.py:420-431, 524, 607, 660) for up to 4 parameters and small integers
    import sympy
    from esr.fitting.sympy_symbols import pow_abs, sqrt_abs, log_abs, square, cube
    al = sympy.symbols("a0 a1 a2 a3", real=True)
    nums = [sympy.Integer(n) for n in (-4, -3, -2, -1, 2, 3, 4)] + [sympy.Rational(1, 2), sympy.Rational(-3, 2)]
    for a in al:
        made = [str({a: a / n}) for n in nums] + [str({a: pow_abs(a, 1 / n)}) for n in nums if n.is_Integer and n.is_even] + \
               [str({a: a ** (1 / n)}) for n in nums if n.is_Integer and n.is_odd and n > 0] + \
               [str({a: pow_abs(a, 1 / (n + 1))}) for n in nums if n.is_Integer and n.is_even and n > 0] + \
               [str({a: pow_abs(a, 1 / (n + 1)) * sympy.sign(a)}) for n in nums if n.is_Integer and n.is_odd and n > 0] + \
               [str({a: sqrt_abs(a)}), str({a: a ** sympy.Rational(1, 3)}), str({a: pow_abs(a, sympy.Rational(1, 3))}), str({a: square(a)}),
                str({a: sympy.exp(a)}), str({a: log_abs(a)}), str({a: -a}), str({a: 1 / a})]
        for m in made:
            if "zoo" not in m:
                texts.setdefault(m, ("constructed", 0))
    # the pairwise combination step records {expression in two parameters: parameter} when told to keep the map (simplifier.py:372-390)
    for a, b in ((al[0], al[1]), (al[1], al[2])):
        for key, val in ((a + b, b), (a - b, b), (a * b, b), (a / b, a), (b * sympy.Abs(a), b), (sympy.Abs(a) ** b, sympy.Abs(b)), (a ** b, b)):
            texts.setdefault(str({key: val}), ("constructed", 0))
    import itertools
    for perm in itertools.permutations(range(3)):
        d = {al[i]: al[perm[i]] for i in range(3) if i != perm[i]}
        if d:
            texts.setdefault(str(d), ("constructed", 0))
    rng = random.Random(evidence.seed())
    els = sorted(texts)
    rows = [[e] for e in els] + [[]]
    for _ in range(60 if tier == "quick" else 400):
        rows.append([rng.choice(els) for _ in range(rng.choice([2, 2, 3]))])
    rows.insert(3, [])
    maxp = max([libproj.nparam(e) for e in els] + [1])
    fname = os.path.join(s, "c17_subs.txt")
    with open(fname, "w") as f:
        csv.writer(f, delimiter=";").writerows(rows)        # exactly how do_sympy / duplicate_checker write it
    # a one-parameter file, read as the first thing a process does (the symbol table load_subs fills is shared process-wide state)
    rows1 = [[e] for e in els if libproj.nparam(e) <= 1 and "a0" in e] + [[]]
    single = [rw[0] for rw in rows1 if rw]
    rows1 += [[rng.choice(single), rng.choice(single)] for _ in range(20)] if single else []
    fname1 = os.path.join(s, "c17_subs1.txt")
    with open(fname1, "w") as f:
        csv.writer(f, delimiter=";").writerows(rows1)
    cases = []
    allrows = rows
    for P, fname, maxp, rows in [(P, fname, maxp, allrows) for P in ([1, 3] if tier == "quick" else [1, 2, 3, 7])] + [(P, fname1, 1, rows1) for P in ([1, 2] if tier == "quick" else [1, 2, 5])]:
        outp = os.path.join(s, "c17_loaded_P%d_%d.json" % (P, maxp))
        res = coord.run_ranks(P, "harness.targets:load_subs_roundtrip", (fname, maxp, outp), s, timeout=1200)
        if res["status"] != "ok":
            bad = [k for k, c in res["exit"].items() if c not in (0, 86)]
            r.violation("load_subs:P%d:%s" % (P, res["status"]), "load_subs on %d ranks did not complete: %s %s\n%s" % (P, res["status"], res["detail"][:300], coord.tail(res["out"][bad[0] if bad else 0], 8)), {"P": P})
            continue
        loaded = json.load(open(outp))
        for mode in ("sympy", "str"):
            got = loaded[mode]
            cases.append({"id": len(cases), "kind": "file", "written": len(rows), "loaded": len(got), "P": P, "mode": mode})
            forms = loaded.get(mode + "_form", [])
            ksyms = loaded.get(mode + "_keysyms", [])
            for i, (w, g) in enumerate(zip(rows, got)):
                want_form = "dict" if mode == "sympy" else "str"
                flags = {"sameLen": len(w) == len(g), "nanKept": True, "keysEqual": True, "valuesEqual": True,
                         "formOK": i < len(forms) and all(f in ("nan", want_form) for f in forms[i])}
                # the keys of a loaded dictionary are expressions in the parameters the text names (e.g. {a0 + a1: a1}): same symbols per key
                if mode == "sympy" and i < len(ksyms):
                    for we, ks in zip(w, ksyms[i]):
                        if ks is None or we.strip() == "nan":
                            continue
                        want = [sorted(set(_re.findall(r"a\d+", kt))) for kt in _key_texts(we)]
                        if sorted(map(tuple, want)) != sorted(map(tuple, ks)):
                            flags["keysEqual"] = False
                for we, ge in zip(w, g):
                    if we.strip() == "nan" or ge == "nan":
                        flags["nanKept"] &= (we.strip() == "nan" and ge == "nan")
                        continue
                    try:
                        ws = libproj.parse_sub(we)
                        gs = libproj.parse_sub(ge) if isinstance(ge, str) else [(int(k[1:]), v) for k, v in ge.items()]
                    except Exception:
                        continue          # a key that is not a single parameter: judged through its symbols (above) and its form only
                    if ws is None or gs is None:
                        continue
                    if [k for k, _ in ws] != [k for k, _ in gs]:
                        flags["keysEqual"] = False
                        continue
                    th = [np.array([1.7, 0.6, 0.45]), np.array([0.9, 2.3, -1.3]), np.array([0.45, -1.3, 2.1]), np.array([2.2, 0.8, -0.7])]
                    for (k, wv), (_, gv) in zip(ws, gs):
                        with np.errstate(all="ignore"):
                            a = eval(wv, libproj._ns_np(th))
                            b = eval(gv, libproj._ns_np(th))
                        a, b = np.broadcast_to(np.asarray(a, dtype=complex), (3,)), np.broadcast_to(np.asarray(b, dtype=complex), (3,))
                        m = np.isfinite(a)
                        if not np.allclose(a[m], b[m], rtol=1e-10, atol=1e-12) or (np.isfinite(b) != m).any():
                            flags["valuesEqual"] = False
                cases.append(dict({"id": len(cases), "kind": "row", "i": i, "P": P, "mode": mode, "text": w, "got": g}, **flags))
    jres, failed = tlc.judge("SubsJudge", cases, heap="8g")
    r.add_tlc(jres, "subs_judge_roundtrip")
    for i, cl in sorted(failed.items())[:10]:
        c = cases[i]
        r.violation("roundtrip:%s:%s" % (",".join(cl), "|".join(c.get("text", ["file"]))), "file round trip on %d ranks (%s) violates %s: written %s loaded %s" % (
            c["P"], c["mode"], cl, c.get("text", c.get("written")), c.get("got", c.get("loaded"))), c)
    r.add("roundtrip", evaluations=len(cases), nontrivial=len(els), traces=len(cases), distinct_templates=len(els), max_param=maxp)
    r.sample({"templates_harvested": els[:8], "from": [texts[e] for e in els[:3]]})


def run(tier, replay=None):
    r = evidence.Run(PID, tier, "model_checking")
    s = scratch.make()
    scratch.activate(s)
    import esr.generation.simplifier as simp
    _cancel(r, simp, tier)
    _roundtrip(r, s, tier)
    r.cov["rule"] = ("cancellation: every chain of <= 4 (quick) / 5 (thorough) templates over {neg0, neg1, inv0, the two spellings of swap, scale} is one state of Subs.tla; "
                     "the real simplify_inv_subs output is judged by SubsJudge (composition unchanged on 4 rational points, only deletions); non-trivial = chains where "
                     "something was cancelled. round trip: every distinct substitution text found in the round files of generated libraries, alone and in random chains, "
                     "written with csv.writer and read by load_subs on P ranks; non-trivial = distinct templates")
    r.assumptions += ["templates are mapped to the simplifier's text with the same sympy str() calls", "values compared numerically at 3 parameter vectors (1e-10)"]
    return r.finish(exhaustive=True)
