"""C15 A timed-out simplification step is skipped cleanly (fault replay, binding D)."""
import hashlib, json, os, random, shutil, threading
from harness import scratch, tlc, evidence, pool, lib, libproj, bases
from checks import common

PID = "C15"


def _run_one(s, name, n, basis, targets):
    """fresh scratch clone per run: returns (record, Library or None, scratch)"""
    out = os.path.join(s, "fault_out.json")
    o = pool.parallel("harness.faults:gen_with_faults", [(name, n, basis, targets, out)], s, timeout=1800)[0]
    if o[0] != 0 or not os.path.exists(out):
        raise RuntimeError("fault worker failed: " + o[1][-800:])
    return json.load(open(out))


def _digest(L):
    h = hashlib.sha1()
    for f in sorted(os.listdir(L.dir)):
        if f.startswith(("unique_equations", "matches", "inv_subs_%d.txt" % L.n, "all_equations", "trees", "aifeyn")):
            h.update(f.encode())
            h.update(open(os.path.join(L.dir, f), "rb").read())
    return h.hexdigest()


def critical_lines(scr):
    """line windows of simplifier.py inside `with time_limit` blocks in which the managed per-function variables (sympy object, string,
    recorded substitutions) are updated one after the other: for every statement list (body) that contains, possibly nested, at least one
    such update, the window from its first to its last update; windows nested in a larger one are dropped.  A timeout in a window finds
    the variables inconsistent.  A top-level body of the with-block contributes only its own direct updates."""
    import ast
    src = open(os.path.join(scr, "esr", "generation", "simplifier.py")).read()
    tree = ast.parse(src)
    managed = ("sym_fun", "str_fun", "inv_subs_fun", "change_idx", "change_vals", "to_change", "change_indices", "ref_indices", "new_inv_subs")

    def is_update(n):
        tgt = []
        if isinstance(n, ast.Assign):
            tgt = n.targets
        elif isinstance(n, ast.Expr) and isinstance(n.value, ast.Call) and isinstance(n.value.func, ast.Attribute) and n.value.func.attr == "append":
            tgt = [n.value.func.value]
        for t in tgt:
            b = t
            while isinstance(b, (ast.Subscript, ast.Attribute)):
                b = b.value
            if isinstance(b, ast.Name) and b.id in managed:
                return True
        return False

    wins = []

    def visit_body(body, top):
        lines = []
        for st in body:
            sub = []
            for field in ("body", "orelse", "finalbody"):
                if isinstance(getattr(st, field, None), list):
                    sub += visit_body(getattr(st, field), False)
            for h in getattr(st, "handlers", []):
                sub += visit_body(h.body, False)
            own = [st.lineno, getattr(st, "end_lineno", st.lineno)] if is_update(st) else []
            lines += own if top else (own + sub)
        if lines and not top:
            wins.append((min(lines), max(lines)))
        if top:
            for st in body:
                if is_update(st):
                    wins.append((st.lineno, getattr(st, "end_lineno", st.lineno)))
        return lines

    for w in ast.walk(tree):
        if isinstance(w, ast.With) and any(isinstance(i.context_expr, ast.Call) and getattr(i.context_expr.func, "id", "") == "time_limit" for i in w.items):
            visit_body(w.body, True)
    wins = sorted(set(wins))
    keep = [x for x in wins if not any(y != x and y[0] <= x[0] and x[1] <= y[1] for y in wins)]
    return [(lo, lo, hi) for lo, hi in keep]


def _model(r, tier):
    """Dedup.tla: what a timeout between the separate updates of a simplification step does to MapExact (design level)"""
    runs = [("one_block_no_repair", dict(NF="2", NC="1", NBlocks="1", MaxRounds="2", Faults="1", Repair="FALSE"), True),
            ("two_blocks_no_repair", dict(NF="2", NC="1", NBlocks="2", MaxRounds="2", Faults="1", Repair="FALSE"), False)]
    if tier == "thorough":
        runs += [("two_blocks_with_check_results", dict(NF="2", NC="1", NBlocks="2", MaxRounds="2", Faults="1", Repair="TRUE"), True),
                 ("three_functions_one_block", dict(NF="3", NC="1", NBlocks="1", MaxRounds="2", Faults="1", Repair="FALSE"), True)]
    for name, consts, expect in runs:
        res = tlc.must(tlc.run("Dedup", "Dedup_mc.cfg", constants=consts, workers=8, heap="8g", timeout=3000), "Dedup " + name)
        r.add_tlc(res, "dedup_model_" + name)
        held = "MapExact" not in res["violated"]
        if held != expect:
            if expect:
                r.violation("model:MapExact:" + name, "Dedup.tla: MapExact violated in configuration %s %s - the bookkeeping design does not survive a timeout" % (name, consts))
            else:
                raise tlc.TLCError("Dedup.tla: the stale-chain scenario (%s) no longer violates MapExact: the fault model is vacuous" % name)
        for v in res["violated"]:
            if v != "MapExact":
                r.violation("model:%s:%s" % (v, name), "Dedup.tla invariant %s violated (%s)" % (v, name))
    r.add("dedup_model", evaluations=len(runs), nontrivial=len(runs))
    # unbounded counterpart (TLAPS): whatever torn steps (substitution recorded, string not updated) precede it, after check_results every
    # function is exact -- for any group, any number of functions, rounds and faults
    from checks import common
    common.prove(r, "DedupProofs", tier, "after check_results every function is exact whatever timeouts left behind (MapExact)", selftests=[
        ("DedupProofs.tla", "         /\\ hs' = [i \\in Fun |-> IF Exact(i) THEN hs[i] ELSE h0[i]]", "         /\\ hs' = hs")])


def run(tier, replay=None):
    r = evidence.Run(PID, tier, "fault_enumeration")
    _model(r, tier)
    rng = random.Random(evidence.seed())
    plans = [("core_maths", 3, None, 30), ("base_e_maths", 3, None, 45), ("core_maths", 4, None, 10)] if tier == "quick" else \
        [("core_maths", 3, None, None), ("base_e_maths", 3, None, 1200), ("core_maths", 4, None, 800), ("ext_maths", 3, None, 600)]
    nproc = 8
    for name, n, basis, budget in plans:
        s0 = scratch.make()
        base = _run_one(s0, name, n, basis, [])
        if base["status"] != "ok":
            r.violation("gen_crash:%s:n%d" % (name, n), "fault-free generation failed: %s" % base["status"], {"runname": name, "n": n})
            continue
        L0 = lib.Library(s0, name, n)
        d0 = _digest(L0)
        census = base["census"]
        places = [(b, c) for b, (fn, line, cnt, callees) in enumerate(census) for c in range(1, cnt + 1)]
        sites = sorted({(fn, line) for fn, line, cnt, callees in census if cnt})
        exhaustive = budget is None or budget >= len(places)
        chosen = places if exhaustive else []
        if not exhaustive:
            # every (function, with-line) site gets its share; inside a site seeded sampling over (block, call point)
            # strata: (function, with-line, callee, calling line) -- every distinct call site inside every block kind is hit
            by_site = {}
            for b, c in places:
                by_site.setdefault((census[b][0], census[b][1], census[b][3][c - 1]), []).append((b, c))
            per = max(1, budget // max(1, len(by_site)))
            strata = sorted(by_site.items())
            if len(strata) > budget:
                strata = rng.sample(strata, budget)
            for k, v in strata:
                chosen += rng.sample(v, min(per, len(v)))
        # (a) every call point made from a line inside a critical window (managed variables possibly inconsistent) -- all of them, up to a cap
        crit = critical_lines(s0)
        def is_crit(b, c):
            ln = int(census[b][3][c - 1].rsplit(":", 1)[1])
            return any(lo <= ln <= hi for _, lo, hi in crit)
        critical = [pc for pc in places if is_crit(*pc)]
        cap = 150 if tier == "quick" else 4000
        if len(critical) > cap:
            critical = rng.sample(critical, cap)
        # (b) the first and the last block of every site (first function a rank handles in a pass, last one)
        edge = []
        for st in sites:
            bl = [b for b, (fn, line, cnt, cal) in enumerate(census) if (fn, line) == st and cnt]
            edge += [(bl[0], 1), (bl[0], census[bl[0]][2]), (bl[-1], 1)]
        # (c) block entries (call index 0: before anything in the block has run) where the block body starts with a simple statement
        ent = base.get("entries") or []
        entry = [(b, 0) for b, e in enumerate(ent) if e and e[1]]
        by_entry_site = {}
        for b, c in entry:
            by_entry_site.setdefault((census[b][0], census[b][1]), []).append((b, 0))
        entry_chosen = []
        for st, v in sorted(by_entry_site.items()):
            entry_chosen += v if tier == "thorough" else sorted(set(v[:2] + v[-1:] + rng.sample(v, min(6, len(v)))))
        chosen = sorted(set(chosen) | set(critical) | set(edge) | set(entry_chosen))
        jobs = [[p] for p in chosen]
        if tier == "thorough":        # double faults: pairs in different blocks
            for _ in range(150):
                a, b = rng.sample(places, 2)
                jobs.append(sorted([a, b]))
        events, details, keyof = [], {}, {}
        outcomes = {"same_library": 0, "different_library": 0, "not_fired": 0}
        for bstart in range(0, len(jobs), nproc):
            batch = jobs[bstart:bstart + nproc]
            scr = [scratch.make() for _ in batch]
            recs = [None] * len(batch)

            def work(i):
                recs[i] = _run_one(scr[i], name, n, basis, batch[i])
            th = [threading.Thread(target=work, args=(i,)) for i in range(len(batch))]
            [t.start() for t in th]
            [t.join() for t in th]
            for tg, sc, rec in zip(batch, scr, recs):
                if rec is None:
                    raise RuntimeError("fault worker thread failed")
                where = ["%s:%s %s in %s" % (census[b][0], census[b][1], "call#%d" % c if c else "block entry", next((f[2] for f in rec["fired"] if f[0] == b and f[1] == c), "?")) for b, c in tg]
                key = "%s:n%d:%s" % (name, n, "+".join("%s@%s" % (census[b][0], census[b][1]) for b, c in tg))
                if len(rec["fired"]) < len(tg):
                    outcomes["not_fired"] += 1          # the run diverged before the second placement: nothing to judge
                if rec["status"] != "ok":
                    r.violation("abort:" + key + ":" + rec["status"].split(":")[0],
                                "generation of %s n=%d aborted after a timeout injected at %s: %s\n%s" % (name, n, where, rec["status"], rec["log"][-600:]),
                                {"runname": name, "n": n, "targets": tg, "where": where})
                else:
                    try:
                        L = lib.Library(sc, name, n)
                    except Exception as e:
                        r.violation("files:" + key, "library files missing/unreadable after a timeout at %s: %r" % (where, e), {"targets": tg})
                        L = None
                    if L is not None:
                        if _digest(L) == d0:
                            outcomes["same_library"] += 1
                        else:
                            outcomes["different_library"] += 1
                            ev, det = libproj.events(L, full=True, want_code=False, c02=False, c03=True, seed=evidence.seed())
                            off = len(events)
                            for e in ev:
                                e["id"] += off
                                keyof[e["id"]] = (key, where, tg)
                                details[e["id"]] = det[e["id"] - off]
                            events += ev
                scratch._made.remove(sc)
                shutil.rmtree(sc, ignore_errors=True)
        if events:
            jres, failed = tlc.judge("Library", events, heap="8g", timeout=3000)
            r.add_tlc(jres, "judge_%s_n%d" % (name, n))
            for i, cl in sorted(failed.items()):
                cl = [c for c in cl if c in common.C03_CLAUSES]
                if cl:
                    key, where, tg = keyof[i]
                    r.violation("unsound:" + key + ":" + ",".join(cl), "after a timeout injected at %s the library violates %s: %s" % (where, cl, details[i]),
                                {"runname": name, "n": n, "targets": tg, "where": where})
        r.add("faults_%s_n%d" % (name, n), evaluations=len(jobs), nontrivial=outcomes["different_library"], traces=len(jobs), blocks=len(census),
              call_points=len(places), sites=len(sites), critical_window_placements=len(critical), block_entry_placements=len(entry_chosen), exhaustive_single_faults=exhaustive, **outcomes)
        r.sample({"library": name, "n": n, "time_limited_blocks": len(census), "call_points": len(places), "sites": sites[:6], "example_placement": jobs[len(jobs) // 2]})
    r.assumptions += ["Dedup.tla (design level): with one time-limited block per round a timeout can never leave a stale substitution (make_changes commits only when the string changed); "
                      "with two blocks it can, and CheckResults repairs it - checked by TLC in each run"]
    r.cov["rule"] = ("fault = TimeoutException raised at the k-th Python-level call made directly from the frame that opened a `with time_limit` block of simplifier.py "
                     "(sympy_simplify, expand_or_factor, check_results); placements = all (block occurrence, call point) pairs of a fault-free census run; every injected run is "
                     "a full generation in a fresh process; it must complete and the library is judged by Library.tla (C03 clauses) unless byte-identical to the fault-free "
                     "one; non-trivial = runs whose library differs from the fault-free library")
    r.assumptions += ["injection at call events is artefact-free (DESIGN 4.4); statement points between two managed updates without a Python call are not injected",
                      "P1 and the family test decide soundness as in C03"]
    return r.finish(exhaustive=False)
