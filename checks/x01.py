"""X01 (not a listed property; spec growth, DESIGN.md 12.4): ignore_previous_eqns of the fitting stage, judged by Prev.tla."""
import json, math, os
from harness import scratch, tlc, evidence, coord, data, lib
from checks import common

PID = "X01"


def run(tier, replay=None):
    r = evidence.Run(PID, tier, "model_checking")
    s = scratch.make()
    libs = {}
    for n in (1, 2, 3) + ((4,) if tier == "thorough" else ()):
        L, _ = common.gen_library(r, s, "core_maths", n)
        if L is None:
            return r.finish(exhaustive=False)
        libs[n] = L
    cases = []
    for n in sorted(libs)[2:]:
        rows = {}
        for flag in (False, True):
            dd = os.path.join(s, "x01_%d_%d" % (n, flag))
            os.makedirs(dd)
            data.gauss_file(os.path.join(dd, "d.txt"), lambda x: 1.5 * x * x + 0.7, n=25, sigma=0.2)
            opts = {"fit": {"tmax": 300, "Niter_params": [12, 12], "Nconv_params": [3, 2], "ignore_previous_eqns": flag}}
            res = coord.run_ranks(2, "harness.targets:fit_stages_det", ("gauss", "d.txt", "r", dd, "core_maths", n, ["fit"], opts), s, timeout=3000)
            if res["status"] != "ok":
                r.violation("fit:%d:%s" % (n, flag), "fit stage (ignore_previous_eqns=%s) did not complete: %s %s" % (flag, res["status"], res["detail"][:200]), {})
                return r.finish(exhaustive=False)
            rows[flag] = [[float(v) for v in l.split()] for l in open(os.path.join(dd, "fitting", "output", "output_r", "negloglike_comp%d.dat" % n)).read().splitlines()]
        ids = {}
        sid = lambda t: ids.setdefault(t, len(ids) + 1)
        lower = sorted({sid(u) for m in libs if m < n for u in libs[m].uniq})
        uniq = [sid(u) for u in libs[n].uniq]
        vals = sorted({row[0] for f in rows for row in rows[f] if math.isfinite(row[0])})
        cls = lambda v: 100000 if not math.isfinite(v) else vals.index(v)
        cases.append({"id": len(cases), "uniq": uniq, "lower": lower, "plain": [cls(row[0]) for row in rows[False]], "flagged": [cls(row[0]) for row in rows[True]],
                      "zero": [all(v == 0 for v in row[1:]) for row in rows[True]]})
        r.sample({"complexity": n, "uniques": len(uniq), "seen_at_lower_complexity": sum(1 for u in uniq if u in lower)})
    jres, failed = tlc.judge("Prev", cases)
    r.add_tlc(jres, "prev_judge")
    for i, cl in failed.items():
        r.violation("prev:%s" % ",".join(cl), "fit stage with ignore_previous_eqns violates %s: %s" % (cl, cases[i]), cases[i])
    r.add("prev", evaluations=sum(len(c["uniq"]) for c in cases), nontrivial=sum(sum(1 for u in c["uniq"] if u in c["lower"]) for c in cases), traces=len(cases))
    r.cov["rule"] = "every unique function of core_maths n=3 (thorough: and n=4): fit stage with and without ignore_previous_eqns on 2 ranks (fits re-seeded per function); non-trivial = uniques already present at a lower complexity"
    return r.finish(exhaustive=False)
