"""C13 The number of MPI ranks changes neither what is enumerated nor its soundness."""
import os, random, shutil
from harness import scratch, tlc, evidence, coord, lib, bases
from checks import common

PID = "C13"
IDENT = ["trees_%d.txt", "orig_trees_%d.txt", "extra_trees_%d.txt", "all_equations_%d.txt", "aifeyn_%d.txt"]


def _model(run):
    for cfg, part in (("Coll_mc.cfg", "coll_model"), ("Coll_fault.cfg", "coll_fault_model")):
        res = tlc.must(tlc.run("Coll_mc", cfg, workers=8), cfg)
        run.add_tlc(res, part)
        for v in res["violated"]:
            run.violation("model:%s:%s" % (cfg, v), "Coll.tla property %s violated" % v)
    # vacuity guard: NoOrphan must be violated once a rank may crash
    cfg = open(os.path.join(tlc.SPEC, "Coll_fault.cfg")).read() + "\nINVARIANT NoOrphan\n"
    res = tlc.must(tlc.run("Coll_mc", cfg, workers=1), "fault+NoOrphan")
    if "NoOrphan" not in res["violated"]:
        raise tlc.TLCError("Coll.tla: NoOrphan is vacuous (not violated under Crash)")
    run.add("coll_model", evaluations=3, nontrivial=3)


def run(tier, replay=None):
    r = evidence.Run(PID, tier, "model_checking")
    s1 = scratch.make()
    scratch.activate(s1)
    _model(r)
    rng = random.Random(evidence.seed())
    withpar = [b for b in bases.sub_bases() if "a" in b[0]]
    sub = withpar[rng.randrange(len(withpar))]
    if tier == "quick":
        plans = [("core_maths", 3, None, [2, 5, 8, 16]), ("core_maths", 4, None, [3, 7]), ("verif_c13", 3, sub, [3]),
                 ("core_maths", 5, None, [2]),                                        # first complexity with several alternatives of one sum rewriting
                 ("base_e_maths", 4, None, [2, 3]),                                  # smallest shipped library in which check_results un-merges functions on several ranks
                 ("verif_small", 3, [["x", "a"], ["inv"], ["+", "*", "/"]], [13, 16])]  # more ranks than functions of a shape (12 per shape)
    else:
        plans = [("core_maths", 2, None, [2, 3, 8]), ("core_maths", 3, None, [2, 3, 4, 5, 7, 8, 16]), ("core_maths", 4, None, [2, 3, 5, 8, 16]),
                 ("core_maths", 5, None, [3, 7, 16]), ("ext_maths", 3, None, [4, 16]), ("ext_maths", 4, None, [3, 5]),
                 ("verif_c13", 4, sub, [3, 8]), ("verif_c13b", 3, withpar[(rng.randrange(len(withpar)) + 5) % len(withpar)], [5, 16]),
                 ("base_e_maths", 4, None, [2, 3, 4, 5]), ("keep_duplicates", 4, None, [3, 4]),
                 ("verif_small", 3, [["x", "a"], ["inv"], ["+", "*", "/"]], [5, 12, 13, 16]), ("verif_small", 4, [["x", "a"], ["inv"], ["+", "*", "/"]], [13, 16])]
    plans.append(("verif_noparam", 3, [["x"], ["inv"], ["+", "pow"]], []))      # known finding: parameter-free basis
    for name, n, basis, Ps in plans:
        ref, _ = common.gen_library(r, s1, name, n, basis=basis)
        if ref is None:
            continue
        refbytes = {f % n: open(os.path.join(ref.dir, f % n), "rb").read() for f in IDENT}
        nchain = sum(1 for row in ref.inv_subs if row)
        for P in Ps:
            modes = [("free", None)]
            if P <= 5:
                modes += [("sched", coord.Policy("random", rng.randrange(10 ** 6))), ("sched", coord.Policy("highfirst"))]
            elif tier == "thorough":
                modes += [("sched", coord.Policy("random", rng.randrange(10 ** 6)))]
            for mode, pol in modes:
                s = scratch.make()
                key = "%s:n%d:P%d:%s" % (name, n, P, mode if pol is None else pol.kind)
                L, res = common.gen_library(r, s, name, n, basis=basis, P=P, mode=mode, policy=pol)
                if mode == "free" or L is None:
                    ev = [{"ev": "header", "P": P}] + [e for e in res["events"] if e["ev"] in ("post", "coll", "exit", "mismatch")]
                    acc, cons, tres = tlc.validate_trace("CollTrace", "CollTrace.cfg", ev, heap="8g")
                    r.add_tlc(tres, "colltrace_" + key)
                    if not acc and L is not None:
                        r.violation("trace:" + key, "coordinator trace rejected by CollTrace.tla: %s (consumed %s of %d)" % (tres["clauses"], cons, len(ev)), {"P": P})
                    elif not acc:
                        r.add("trace_rejections", evaluations=0, **{key: tres["clauses"]})
                if L is not None:
                    for f in IDENT:
                        got = open(os.path.join(L.dir, f % n), "rb").read()
                        if got != refbytes[f % n]:
                            a, b = got.splitlines(), refbytes[f % n].splitlines()
                            k = next((i for i, (x, y) in enumerate(zip(a, b)) if x != y), min(len(a), len(b)))
                            r.violation("bytes:%s:%s" % (key, f % n), "%s differs between %d ranks (%s) and 1 rank: %d vs %d lines, first difference at line %d: %r vs %r" % (
                                f % n, P, mode, len(a), len(b), k, a[k][:80] if k < len(a) else None, b[k][:80] if k < len(b) else None), {"P": P, "file": f % n})
                    ev, failed, det, _ = common.judge_library(r, L, key, common.C03_CLAUSES, c02=False, seed=evidence.seed())
                    for i, cl in sorted(failed.items())[:5]:
                        r.violation("sound:%s:%s" % (key, ev[i].get("i", ev[i]["kind"])), "library generated with %d ranks violates %s: %s" % (P, cl, det[i]), {"P": P, "event": ev[i]})
                r.add("runs", evaluations=1, nontrivial=1, traces=1, **{key: dict(functions=len(ref.all_eq), with_chain=nchain, completed=L is not None)})
                scratch._made.remove(s)
                shutil.rmtree(s, ignore_errors=True)
        r.sample({"library": name, "n": n, "basis": basis, "functions": len(ref.all_eq), "functions_with_nonempty_map": nchain, "rank_counts": Ps})
    r.cov["rule"] = ("model: all posting orders of 3 ranks over programs of <= 3 collectives (with and without crashes); implementation: generation with P "
                     "ranks free-running, under seeded random serialised schedules and with rank 0 slowest; byte comparison of tree/function/tree-code files with "
                     "the 1-rank run, Library.tla (C03 clauses) on the P-rank library, coordinator trace validated by CollTrace.tla")
    r.assumptions += ["the MPI stand-in implements the documented semantics of bcast/gather/scatter/Barrier (Coll.tla)", "P1 (see C03)"]
    return r.finish(exhaustive=False)
