"""C04 Exhaustive search is never beaten by a function it enumerated (MDL optimality end to end)."""
import csv, io, json, math, os, random, shutil
import numpy as np
from harness import scratch, tlc, evidence, coord, bases, lib, libproj, p1, wls, data
from checks import common

PID = "C04"
INF, NAN = 100000, -1


def classes(values, tol):
    """P2: order classes of reals (INF/NAN tokens kept); values: {key: float} -> {key: int}"""
    fin = sorted((v, k) for k, v in values.items() if math.isfinite(v))
    out, cls, last = {}, 0, None
    for v, k in fin:
        if last is not None and v - last > tol(max(abs(v), abs(last))):
            cls += 1
        out[k] = cls
        last = v
    for k, v in values.items():
        if math.isnan(v):
            out[k] = NAN
        elif math.isinf(v):
            out[k] = INF if v > 0 else -2
    return out


def model_trees(r, basis, n):
    res = tlc.must(tlc.run("Trees", "Trees_label.cfg", constants=bases.tla_consts(basis, n), workers=1, heap="8g"), "LabelSpec")
    r.add_tlc(res, "trees_%s_n%d" % (bases.name_of(basis), n))
    return {tuple(c["labels"]): c for c in res["json"]}


def read_final(path):
    rows = []
    with open(path) as f:
        for rec in csv.reader(f, delimiter=";"):
            if rec:
                rows.append({"rank": int(rec[0]), "fn": rec[1], "dl": float(rec[2]), "prel": float(rec[3]), "nll": float(rec[4]), "plen": float(rec[5]),
                             "tlen": float(rec[6]), "theta": [float(v) for v in rec[7:]]})
    return rows


def nll_of_string(fn, theta, x, y, sig):
    ex = p1.parse_fit(fn)
    a = [np.full_like(x, theta[j] if j < len(theta) else 0.0) for j in range(4)]
    import sympy
    syms = [sympy.Symbol("x", positive=True)] + [sympy.Symbol("a%d" % j, real=True) for j in range(4)]
    names = {s.name: s for s in syms}
    repl = {s: names[s.name] for s in ex.free_symbols if s.name in names and s != names[s.name]}
    if repl:
        ex = ex.xreplace(repl)
    f = sympy.lambdify(syms, ex, modules=["numpy"])
    with np.errstate(all="ignore"):
        v = np.asarray(f(x, *a), dtype=complex)
    v = np.broadcast_to(v, x.shape)
    if np.abs(v.imag).max() > 0 or not np.isfinite(v.real).all():
        return float("inf")
    return wls.gauss_nll(v.real, y, sig)


def run_pipeline(s, name, n, dd, P=1, seed=0, opts=None):
    # generous per-function time limits: a wall-clock timeout of the stage's own time_limit on a loaded machine must not decide a verdict
    opts = opts or {"fit": {"tmax": 300}, "fisher": {"tmax": 300}, "match": {"tmax": 300}}
    res = coord.run_ranks(P, "harness.targets:fit_stages", ("gauss", "d.txt", "r", dd, name, n, ["fit", "fisher", "match", "combine"], seed, opts or {}), s, timeout=3000)
    return res


def run(tier, replay=None):
    r = evidence.Run(PID, tier, "model_checking")
    rng = random.Random(evidence.seed())
    for d, expect in (("FALSE", True), ("TRUE", False)):
        res = tlc.must(tlc.run("ESR", "ESR_mc.cfg", constants={"U": "2", "K": "3", "NllV": "{0,2,1000}", "PlenV": "{0,1,-1}", "TlenV": "{1,2}", "GuardDefect": d}, workers=8), "ESR")
        r.add_tlc(res, "esr_model_defect%s" % d)
        if (not res["violated"]) != expect:
            if expect:
                r.violation("model:TopNotBeaten", "ESR.tla: the composition of the stage relations does not give optimality: %s" % res["violated"])
            else:
                raise tlc.TLCError("ESR.tla: the guard defect is not detected by the model (vacuous theorem)")
    # tables of any size (TLAPS): rows satisfying row_per_unique, minimum_over_variants and non_decreasing have a first row that no variant beats
    common.prove(r, "RankProofs", tier, "the top row of a table satisfying Rank!Combine is not beaten by any variant (tables of any size)", selftests=[
        ("RankProofs.tla", "MinOverVariants(rows), NonDecreasing(rows), NEW v", "MinOverVariants(rows), NEW v")])
    s = scratch.make()
    scratch.activate(s)
    plans = [("core_maths", 3, 3, 0), ("core_maths", 4, 2, 2)] if tier == "quick" else \
        [("core_maths", 3, 5, 1), ("core_maths", 4, 5, 4), ("ext_maths", 3, 3, 2), ("core_maths", 5, 2, 2), ("ext_maths", 4, 2, 2)]
    cases, meta = [], []
    for name, n, ntruth, nnonlin in plans:
        basis = bases.SHIPPED[name]
        L, _ = common.gen_library(r, s, name, n)
        if L is None:
            continue
        model = model_trees(r, basis, n)
        lin = [i for i, t in enumerate(L.orig_trees) if model.get(tuple(t), {}).get("lin") == "lin"]
        x = np.linspace(0.6, 3.0, 24)
        truths = []
        cand = lin[:]
        rng.shuffle(cand)
        seen_fun = set()
        for i in cand:
            if len(truths) >= ntruth:
                break
            t = L.orig_trees[i]
            k = libproj.nparam(" ".join(t))
            th = [rng.choice([-1, 1]) * rng.uniform(0.8, 3.0) for _ in range(k)]
            try:
                phi0, Phi = wls.design(t, x, k)
            except wls.NotLinear:
                continue
            if k and np.linalg.matrix_rank(Phi) < k:
                continue
            f = phi0 + (Phi @ np.array(th) if k else 0.0)
            sig = 0.05 * max(1.0, float(np.std(f)) or 1.0)
            key = tuple(np.round(f, 6))
            if key in seen_fun or not np.isfinite(f).all():
                continue
            seen_fun.add(key)
            truths.append((i, t, th, sig))
        # planted NON-linear truths (data grid contains x = 1 and x = 2 exactly): the independent description length is that of the
        # optimum next to the planted parameters (small noise), used only if the pipeline found no better optimum for that tree
        xg = np.arange(0.5, 4.01, 0.25)
        non = [i for i, t in enumerate(L.orig_trees) if model.get(tuple(t), {}).get("lin") == "non" and 1 <= libproj.nparam(" ".join(t)) <= 2]
        rng.shuffle(non)
        nl = []
        for i in non:
            if len(nl) >= nnonlin:
                break
            t = L.orig_trees[i]
            k = libproj.nparam(" ".join(t))
            th = [rng.choice([-1, 1]) * rng.uniform(1.5, 3.0) for _ in range(k)]
            a = [np.full_like(xg, th[j] if j < k else 0.0) for j in range(4)]
            f, good = p1.tree_values(t, x=xg, a=a)
            if not good.all() or np.std(f) < 1e-3 or np.max(np.abs(f)) > 1e3:
                continue
            sig0 = 0.02 * float(np.std(f))
            chk = wls.local_fit(t, xg, f, np.full(len(xg), sig0), th)
            if not chk.get("ok") or chk["moved"] > 1e-6 or np.min(np.abs(chk["theta"]) * np.sqrt(chk["Idiag"] / 12.0)) < 3:
                continue                    # not identifiable / near the snapping threshold: not a well-posed planted truth
            key = tuple(np.round(f, 6))
            if key in seen_fun:
                continue
            seen_fun.add(key)
            nl.append((i, t, th, sig0))
        truths = [(a_, b_, c_, d_, x) for a_, b_, c_, d_ in truths] + [(a_, b_, c_, d_, xg) for a_, b_, c_, d_ in nl]
        for ti, (i0, t0, th0, sig0, x) in enumerate(truths):
            dd = os.path.join(s, "c04_%s_%d_%d" % (name, n, ti))
            os.makedirs(dd)
            nrng = np.random.RandomState(evidence.seed() * 100 + ti)
            a_ = [np.full_like(x, th0[j] if j < len(th0) else 0.0) for j in range(4)]
            # error bars that differ from point to point, rows in no particular order
            sig = sig0 * (0.7 + 0.6 * ((np.arange(len(x)) * 7) % 11) / 10.0)
            y = p1.tree_values(t0, x=x, a=a_)[0] + sig * nrng.standard_normal(len(x))
            order = nrng.permutation(len(x))
            x, y, sig = x[order], y[order], sig[order]
            # the same law under the ways a user runs the pipeline: into a directory that holds a completed earlier run on other data,
            # on 12 ranks (two-digit rank numbers in the partial files), with the optimiser in log space
            variant = ("rerun", "ranks12", "log_opt", "plain")[ti % 4]
            if variant == "rerun":
                np.savetxt(os.path.join(dd, "d.txt"), np.transpose([x, y[::-1] + 3.0, sig]))
                pre = run_pipeline(s, name, n, dd, seed=evidence.seed() + 1)
                if pre["status"] != "ok":
                    raise RuntimeError("earlier pipeline run failed: %s" % pre["detail"][:300])
            np.savetxt(os.path.join(dd, "d.txt"), np.transpose([x, y, sig]))
            res = run_pipeline(s, name, n, dd, seed=evidence.seed(), P=12 if variant == "ranks12" else 1,
                               opts={"fit": {"tmax": 300, "log_opt": True}, "fisher": {"tmax": 300}, "match": {"tmax": 300}} if variant == "log_opt" else None)
            key0 = "%s:n%d:truth%s%s" % (name, n, "_".join(t0), "" if variant == "plain" else ":" + variant)
            r.add("variants", evaluations=0, **{"%s_%s_n%d_%d" % (variant, name, n, ti): 1})
            if res["status"] != "ok":
                r.violation("pipeline:" + key0, "pipeline did not complete: %s %s\n%s" % (res["status"], res["detail"][:300], coord.tail(res["out"][0], 10)), {"truth": t0})
                continue
            rows = read_final(os.path.join(dd, "fitting", "output", "output_r", "final_%d.dat" % n))
            if not rows:
                r.violation("empty:" + key0, "final table is empty", {"truth": t0})
                continue
            # independent description length interval of every linear original tree
            vals = {"top": rows[0]["dl"]}
            indep = {}
            for i in lin:
                t = L.orig_trees[i]
                try:
                    lo, hi, info = wls.description_lengths(t, x, y, sig, libproj.code_value(model[tuple(t)]["code"]))
                except wls.NotLinear:
                    continue
                if math.isfinite(hi):
                    vals["hi%d" % i] = hi
                    indep[i] = (lo, hi, info)
            if model.get(tuple(t0), {}).get("lin") == "non":
                lf = wls.local_fit(t0, x, y, sig, th0)
                cm = [l.split() for l in open(os.path.join(dd, "fitting", "output", "output_r", "codelen_matches_comp%d.dat" % n)).read().splitlines()]
                pipe_nll = float(cm[i0][0])
                # informational only: whether the multi-start optimiser finds the optimum of a NON-linear planted truth is C10's subject, not a
                # ranking property (a seed-dependent false alarm came from exactly this: truth 1/(a0+x) with a pole between two data points)
                if lf.get("ok"):
                    r.add("nonlinear_truths", evaluations=1, **{key0: dict(pipeline_nll=pipe_nll, local_optimum_nll=lf["nll"], found=bool(pipe_nll <= lf["nll"] + 1e-3))})
                if False and lf.get("ok") and not (pipe_nll < lf["nll"] - 1e-3):
                    lo, hi = wls.dl_interval_at(t0, x, y, sig, lf["theta"], lf["Idiag"], libproj.code_value(model[tuple(t0)]["code"]))
                    if math.isfinite(hi):
                        vals["hi%d" % i0] = hi
                        indep[i0] = (lo, hi, {"nll": lf["nll"], "theta": lf["theta"].tolist(), "nonlinear_truth": True})
            # trees that are affine in parameter ATOMS (Trees!AtomLin, e.g. x + 1/a0): closed form in the atom values, then the atoms are
            # inverted numerically; these are the variants whose parameter map is not empty
            natom = 0
            for i, t in enumerate(L.orig_trees):
                m = model.get(tuple(t))
                if i in indep or not m or m["lin"] == "lin" or m["alin"]["cls"] != "lin":
                    continue
                try:
                    lo, hi, info = wls.atom_description_lengths(t, m["alin"]["roots"], x, y, sig, libproj.code_value(m["code"]))
                except (wls.NotLinear, p1.Malformed):
                    continue
                if math.isfinite(hi):
                    vals["hi%d" % i] = hi
                    indep[i] = (lo, hi, dict(info, atom_linear=True))
                    natom += 1
            cl = classes(vals, lambda m: max(5e-3, 2e-6 * m))
            for i, (lo, hi, info) in indep.items():
                cases.append({"id": len(cases), "kind": "tree", "top": cl["top"], "hi": cl["hi%d" % i]})
                meta.append((key0, "tree %d %s: top DL %.6f, independent DL of the tree in [%.6f, %.6f] (%s)" % (i, L.orig_trees[i], rows[0]["dl"], lo, hi, info), {"truth": t0, "tree": L.orig_trees[i]}))
            for row in rows:
                s3 = (row["nll"] + row["plen"]) + row["tlen"]
                sum_ok = (not math.isfinite(row["dl"])) or abs(row["dl"] - s3) <= 1e-12 * max(1.0, abs(s3))
                nll_ok = True
                if math.isfinite(row["nll"]) and math.isfinite(row["dl"]):       # rows without a finite DL carry no fitted parameters (match leaves zeros)
                    try:
                        re = nll_of_string(row["fn"], row["theta"], x, y, sig)
                        nll_ok = abs(re - row["nll"]) <= 1e-4 * max(1.0, abs(row["nll"]))
                    except Exception as e:
                        re, nll_ok = repr(e), False
                else:
                    re = None
                cases.append({"id": len(cases), "kind": "row", "sumOK": bool(sum_ok), "nllOK": bool(nll_ok)})
                meta.append((key0 + ":row%d" % row["rank"], "row %s: DL %r vs sum of terms %r; likelihood at reported parameters %r vs reported %r" % (row, row["dl"], s3, re, row["nll"]), {"truth": t0, "row": row}))
            r.add("pipelines", evaluations=1, nontrivial=1, traces=1, **{key0: dict(rows=len(rows), linear_trees=len(indep) - natom, atom_linear_trees=natom, top=rows[0]["fn"], top_dl=rows[0]["dl"],
                                                                                 truth_dl=indep.get(i0, (None, None))[1])})
            r.sample({"library": name, "n": n, "truth": t0, "theta": th0, "top_row": rows[0]["fn"], "top_dl": rows[0]["dl"], "independent_dl_of_truth": indep.get(i0, (None, None))[:2]}, limit=4)
            shutil.rmtree(dd, ignore_errors=True)
    jres, failed = tlc.judge("ESRJudge", cases, heap="8g")
    r.add_tlc(jres, "esr_judge")
    for i, cl in sorted(failed.items()):
        key, text, rp = meta[i]
        r.violation(key + ":" + ",".join(cl) + (":" + "_".join(rp.get("tree", [])) if "tree" in rp else ""), "%s violated: %s" % (cl, text), rp)
    r.add("judged", evaluations=len(cases), nontrivial=sum(1 for c in cases if c["kind"] == "tree"), traces=0)
    r.cov["rule"] = ("ESR.tla: all libraries of <= 3 variants over the abstract alphabets (theorem TopNotBeaten; fails with the pre-repair guard). Implementation: data sets planted from "
                     "linear-in-parameter trees (Trees!LinClass) with seeded parameters and noise; the five real stages run under the stand-in; every row of final_n.dat is re-evaluated "
                     "(DL = sum of terms; likelihood of the reported function at the reported parameters) and the top DL is compared (P2 classes, tolerance 5e-3) with the closed-form "
                     "description length (P5 + Snap + Trees!Code) of every linear original tree; non-trivial = (data set, linear tree) pairs")
    r.assumptions += ["optimality is bounded only over the linear-in-parameter family (closed form available); parameters within 2% of the snapping threshold may fall on either side",
                      "BFGS convergence on linear families (C10)"]
    return r.finish(exhaustive=False)
