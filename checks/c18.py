"""C18 Converting a formula string to a tree preserves the function.

spec -> code: spec/Formula.tla is the grammar of formula strings over a basis; TLC enumerates every
formula up to depth 2 (and draws depth-3 formulas with -simulate) and prints each with the model's own
tree.  code -> spec: every formula string is handed to the real string_to_node, fit_from_string
(single_function replaced by a recording stub: no fit is run; with and without replace_floats) and
string_to_aifeyn; the label lists that come back are projected (harness/formula.py) and judged by
spec/FormulaJudge.tla.  A formula on which an entry point raises is a violation (no label list)."""
import json, multiprocessing, os, random
from concurrent.futures import ThreadPoolExecutor
from harness import scratch, tlc, evidence, bases

PID = "C18"
LEAVES = ["x", "a0", "a1", "2", "0.5", "-1", "1.5", "1.000004"]     # 1.000004: a constant close to, but not, one
SIBS = ["x", "a0", "a2", "3", "-1"]
TIERS = {
    "quick": {"bases": ["keep_duplicates", "base10_maths", "osc_maths"], "depth2": 700, "sim": 150, "workers": 6},
    "thorough": {"bases": list(bases.SHIPPED), "depth2": None, "sim": 600, "workers": 6},
}
WHAT = {"s2n": "string_to_node", "s2n_evalf": "string_to_node(evalf=True)", "s2n_ops": "string_to_node(check_ops=True)", "fit": "fit_from_string", "fit_rf": "fit_from_string(replace_floats=True)",
        "aif": "string_to_aifeyn", "aif_rf": "string_to_aifeyn(replace_floats=True)"}
GROUPED = ("replacement_changes_only_constants", "no_parameter_in_exponent", "replacement_keeps_constants_apart",
           "replacement_keeps_parameter_identity")


# ----------------------------------------------------------------------------- TLC side
def _consts(B, maxdepth, sibdepth):
    from harness import formula
    return {"U1": formula.tla_seq(B[1]), "U2": formula.tla_seq(B[2]), "Leaves": formula.tla_set(LEAVES),
            "Sibs": formula.tla_set(SIBS), "SibDepth": str(sibdepth), "MaxDepth": str(maxdepth)}


def _enumerate(name):
    res = tlc.must(tlc.run("Formula", "Formula_enum.cfg", constants=_consts(bases.SHIPPED[name], 2, 0), workers=2, heap="6g"),
                   "Formula enumeration " + name)
    if res["violated"]:
        raise tlc.TLCError("Formula.tla: grammar invariant violated %s\n%s" % (res["violated"], res["out"][-2000:]))
    if len(res["json"]) != res["distinct"]:
        raise tlc.TLCError("Formula enumeration %s: %d formulas printed, %d distinct states" % (name, len(res["json"]), res["distinct"]))
    return res


def _simulate(name, num):
    import re
    res = tlc.must(tlc.run("Formula", "Formula_sim.cfg", constants=_consts(bases.SHIPPED[name], 3, 1), workers=1, heap="4g",
                           simulate="num=%d" % num, depth=4, seed=evidence.seed()), "Formula simulation " + name)
    if res["violated"]:
        raise tlc.TLCError("Formula.tla: grammar invariant violated in simulation %s\n%s" % (res["violated"], res["out"][-2000:]))
    m = re.search(r"The number of states generated: (\d+)", res["out"])
    res["generated"] = int(m.group(1)) if m else 0
    return res


def generate(r, cfg):
    """{basis: [formula records with 'part']} : exhaustive to depth 2, random depth-3 formulas"""
    names = cfg["bases"]
    with ThreadPoolExecutor(max_workers=3) as ex:
        enum = list(ex.map(_enumerate, names))
        sim = list(ex.map(lambda n: _simulate(n, cfg["sim"]), names))
    out = {}
    for name, e, s in zip(names, enum, sim):
        r.add_tlc(e, "enumerate_depth2_" + name)
        seen, fs = set(), []
        for j in e["json"]:
            if j["sb"] in seen:
                raise tlc.TLCError("Formula enumeration printed a formula twice: %s" % j["sb"])
            seen.add(j["sb"])
            fs.append(dict(j, part="enumerate"))
        n0 = len(fs)
        for j in s["json"]:
            if j["sb"] not in seen:
                seen.add(j["sb"])
                fs.append(dict(j, part="simulate"))
        s = dict(s, distinct=len(fs) - n0)
        r.add_tlc(s, "simulate_depth3_" + name)
        out[name] = fs
    return out


# ----------------------------------------------------------------------------- implementation side
def _work(chunk):
    from harness import formula
    return [(k, formula.observe(job)) for k, job in chunk]


def observe_all(jobs, workers):
    chunks = [[(k, jobs[k]) for k in range(i, min(i + 150, len(jobs)))] for i in range(0, len(jobs), 150)]
    out = [None] * len(jobs)
    if workers <= 1 or len(jobs) < 300:
        for c in chunks:
            for k, o in _work(c):
                out[k] = o
        return out
    ctx = multiprocessing.get_context("fork")
    with ctx.Pool(workers) as pool:
        for res in pool.imap_unordered(_work, chunks):
            for k, o in res:
                out[k] = o
    return out


def _jobs(name, fs):
    B = bases.SHIPPED[name]
    jobs = []
    for f in fs:
        for style in ("sb", "sp"):
            if style == "sp" and f["sp"] == f["sb"]:
                continue
            jobs.append({"basis": name, "B": B, "tok": f["tok"], "s": f[style], "style": "basis" if style == "sb" else "plain",
                         "d": f["d"], "part": f["part"], "ex": f["ex"], "aif": (False, True)})
    return jobs


# ----------------------------------------------------------------------------- binding self-test
def _selftest_cases():
    """hand-made records (not from the code under test): two that hold, ten that each break one clause"""
    from harness import formula
    B = [["x", "a"], ["inv"], ["+", "*", "-", "pow"]]
    tok = ["-", "pow", "x", "3", "*", "2", "a0"]
    ref = formula.Ref(tok)
    rf = ["-", "pow", "x", "3", "*", "a0", "a1"]
    mk = lambda entry, isrf, lab, plain, c=-1: formula._case(entry, isrf, lab, plain, c, ref, B, ["a0"])
    ok = [mk("s2n", False, tok, tok, 7), mk("fit_rf", True, rf, tok)]
    bad = [(mk("s2n", False, tok, tok, 8), "complexity_is_length"),
           (mk("s2n", False, ["-", "*", "2", "a0", "pow", "x", "3"], tok, 7), "same_function"),
           (mk("fit_rf", True, ["-", "pow", "x", "a0", "*", "a1", "a2"], tok), "no_parameter_in_exponent"),
           (mk("s2n", False, tok[:-1], tok[:-1], 6), "well_formed"),
           (mk("s2n", False, ["-", "pow", "x", "3", "/", "2", "a0"], tok, 7), "vocabulary"),
           (mk("fit", False, ["-", "pow", "x", "3", "*", "a3", "a0"], tok), "constants_keep_values"),
           (mk("fit_rf", True, ["-", "pow", "x", "3", "*", "a0", "a0"], tok), "replacement_keeps_constants_apart"),
           (mk("fit_rf", True, ["-", "pow", "a5", "3", "*", "a0", "a1"], tok), "replacement_changes_only_constants"),
           ({"kind": "count", "entry": "aif", "complexity": 5, "n": 7}, "complexity_is_length")]
    return ok, bad


# ----------------------------------------------------------------------------- the check
def run(tier, replay=None):
    r = evidence.Run(PID, tier, "model_checking")
    cfg = TIERS[tier]
    s = scratch.make()
    scratch.activate(s)
    from harness import formula
    formula.install()
    rng = random.Random(evidence.seed())

    if replay:
        rp = json.load(open(replay))["replay"]
        f = {"tok": rp["tok"], "sb": rp["formula"], "sp": rp["formula"], "d": -1, "ex": [], "part": "replay"}
        selected = {rp["basis"]: [f]}
    else:
        gen = generate(r, cfg)
        selected = {}
        for name, fs in gen.items():
            shallow = [f for f in fs if f["part"] == "enumerate" and f["d"] <= 1]
            deep = [f for f in fs if f["part"] == "enumerate" and f["d"] == 2]
            if cfg["depth2"] is not None and len(deep) > cfg["depth2"]:
                deep = rng.sample(deep, cfg["depth2"])
            selected[name] = shallow + deep + [f for f in fs if f["part"] == "simulate"]

    jobs = []
    for name, fs in selected.items():
        jobs += _jobs(name, fs)
    obs = observe_all(jobs, cfg["workers"])

    # ---- records for the judge
    cases, meta, events = [], [], []
    stats = {"strings": len(jobs), "outside_proviso": 0, "nontrivial": 0, "undecided": 0, "crashes": {}, "calls": 0}
    per_basis = {}
    seen_nt = set()
    for job, o in zip(jobs, obs):
        pb = per_basis.setdefault(job["basis"], {"strings": 0, "nontrivial": 0, "depth3": 0, "with_number_exponent": 0})
        pb["strings"] += 1
        pb["depth3"] += int(job["d"] == 3)
        pb["with_number_exponent"] += int(any(job["ex"]))      # Formula!ex: the model's exponent numbers
        stats["calls"] += len(o["cases"]) + len(o["crashes"])
        if o["npoints"] == 0:
            stats["outside_proviso"] += 1        # nowhere finite with all power bases positive: C18 says nothing
            continue
        if formula.nontrivial(o["raw"]) and (job["basis"], job["s"]) not in seen_nt:
            seen_nt.add((job["basis"], job["s"]))
            stats["nontrivial"] += 1
            pb["nontrivial"] += 1
        for c in o["crashes"]:
            off = c["diag"].split("+")
            for l in off:
                key = "raises:%s:%s:%s" % (c["exc"], l, job["basis"])
                stats["crashes"][key] = stats["crashes"].get(key, 0) + 1
                events.append(((len(off), len(job["tok"])), key,
                               "%s(%r, %s%s) raised %s(%s): no label list is returned for an in-grammar formula (model tree %s)" % (
                                   WHAT[c["entry"]].split("(")[0], job["s"], job["basis"],
                                   ", replace_floats=True" if c["entry"].endswith("_rf") else "", c["exc"], c["msg"], job["tok"]),
                               {"basis": job["basis"], "formula": job["s"], "tok": job["tok"], "entry": c["entry"]}))
        for c in o["cases"]:
            c = dict(c, id=len(cases))
            cases.append(c)
            meta.append(job)
            if c["kind"] == "conv" and c["clsTree"] == -1:
                stats["undecided"] += 1

    ok, bad = _selftest_cases()
    n_real = len(cases)
    st = [dict(c, id=n_real + k) for k, c in enumerate(ok + [b[0] for b in bad])]
    allcases = cases + st

    size = 30000
    batches = [allcases[i:i + size] for i in range(0, len(allcases), size)]
    with ThreadPoolExecutor(max_workers=3) as ex:
        results = list(ex.map(lambda b: tlc.judge("FormulaJudge", b, heap="6g"), batches))
    failed, noted = {}, {}
    tot = {"distinct": 0, "generated": 0, "depth": 0, "wall_s": 0.0}
    for res, f in results:
        failed.update(f)
        for j in res["json"]:
            if isinstance(j, dict) and "noted" in j:
                noted[j["id"]] = j["noted"]
        for k in ("distinct", "generated"):
            tot[k] += res[k]
        tot["depth"] = max(tot["depth"], res["depth"])
        tot["wall_s"] += res["wall_s"]
    r.add_tlc(tot, "judge")

    # ---- binding self-test: the judge accepts the sound records and rejects each corrupted one
    for k in range(len(ok)):
        if failed.get(n_real + k):
            raise RuntimeError("self-test: FormulaJudge rejects a sound record: %s %s" % (failed[n_real + k], st[k]))
    for k, (_, clause) in enumerate(bad):
        if clause not in failed.get(n_real + len(ok) + k, []):
            raise RuntimeError("self-test: FormulaJudge accepts a record corrupted for clause %s: %s" % (clause, st[len(ok) + k]))

    # ---- verdicts: systematic failures collapse to one key per (clause | exception, offending label, basis);
    #      the simplest formula showing a key alone is reported first, clauses on shape / function / complexity before
    #      the exception and vocabulary groups
    per_clause = {}
    for i in sorted(k for k in failed if k < n_real):
        c, job = cases[i], meta[i]
        flat = set(job["B"][1]) | set(job["B"][2])
        off = sorted({l for l in c.get("labels", []) if formula.cat(l) == "sym" and l not in flat})
        text = lambda clause: "FormulaJudge clause %s violated: %s(%r, %s) -> labels %s%s%s; model tree %s%s" % (
            clause, WHAT[c["entry"]], job["s"], job["basis"], c.get("labels"),
            (" (without replacement: %s)" % c["plain"]) if c.get("rf") else "",
            (", complexity %s" % c["complexity"]) if c.get("complexity", -1) != -1 else "", job["tok"],
            (" [" + c["info"] + "]") if c.get("info") else "")
        rp = {"basis": job["basis"], "formula": job["s"], "tok": job["tok"], "entry": c["entry"], "case": c}
        for clause in failed[i]:
            if clause == "vocabulary" and off:
                keys = ["vocabulary:%s:%s" % (l, job["basis"]) for l in off]
            elif clause in GROUPED:
                keys = ["%s:%s" % (clause, job["basis"])]
            elif clause == "well_formed":            # grouped by the malformed list that came back
                keys = ["well_formed:%s:%s" % (" ".join(c["labels"][:6]), job["basis"])]
            else:
                n = per_clause.get((clause, job["basis"]), 0)
                per_clause[(clause, job["basis"])] = n + 1
                keys = ["%s:%s:%s:%s" % (clause, c["entry"], job["basis"], job["s"]) if n < 3 else "%s:%s:more" % (clause, job["basis"])]
            for key in keys:
                events.append(((len(keys), len(job["tok"])), key, text(clause), rp))
    first = lambda key: 1 if key.split(":")[0] in ("raises", "vocabulary", "replacement_keeps_parameter_identity") else 0
    for _, key, text, rp in sorted(events, key=lambda e: (first(e[1]), e[0])):
        r.violation(key, text, rp)

    # ---- evidence
    nconv = sum(1 for c in cases if c["kind"] == "conv")
    r.add("conversion", evaluations=stats["calls"], nontrivial=stats["nontrivial"], traces=len(jobs),
          formula_strings=len(jobs), judged_records=n_real, label_lists=nconv, undecided_semantics=stats["undecided"],
          outside_proviso=stats["outside_proviso"], per_basis=per_basis,
          raised=dict(sorted(stats["crashes"].items())),
          noted_number_inside_exponent_subtree_replaced=len(noted), selftest_records=len(st),
          violation_keys=dict(r._keys), known_keys_hit=[k for k, _ in r.known])
    for i in sorted(noted)[:2]:
        r.sample({"noted": noted[i], "formula": meta[i]["s"], "basis": meta[i]["basis"], "without_replacement": cases[i]["plain"],
                  "with_replacement": cases[i]["labels"]})
    shown = 0
    for c, job in zip(cases, meta):
        if c["kind"] == "conv" and c["entry"] == "fit_rf" and len(c["labels"]) >= 5 and c["labels"] != c["plain"] and c["id"] not in failed:
            r.sample({"basis": job["basis"], "formula": job["s"], "model_tree": job["tok"], "fit_from_string": c["plain"],
                      "replace_floats": c["labels"], "clsTree": c["clsTree"]})
            shown += 1
            if shown >= 3:
                break
    r.cov["rule"] = (
        "formulas = behaviours of Formula.tla over each basis: leaves %s, siblings of deeper terms %s, every unary/binary operator of the "
        "basis, each written in the basis notation and (where different) in plain notation (1/e, e**2, sqrt, log, l**r); %s; depth-3 formulas "
        "from TLC -simulate (seed VERIF_SEED). Each string goes to string_to_node, fit_from_string (stub single_function) with and without "
        "replace_floats, and string_to_aifeyn (both); every returned label list is one record judged by FormulaJudge.tla (well_formed, "
        "vocabulary, complexity_is_length, same_function, constants_keep_values, the replace_floats clauses); an exception is a violation. "
        "Formulas with no generic point at which they are finite with all power bases / sqrt / log arguments positive are outside C18's proviso "
        "and not judged (counted as outside_proviso). non-trivial = distinct formula strings whose string_to_node list has >= 3 labels and "
        "contains a number, a power or one of the special cases Inv/Square/Cube/Sqrt/Sub/Div" % (
            LEAVES, SIBS, "every formula of depth <= 2 is fed" if cfg["depth2"] is None else
            "all formulas of depth <= 1 and a seeded sample of %d of the enumerated depth-2 formulas per basis are fed" % cfg["depth2"]))
    r.assumptions += [
        "P1: agreement at the generic points of harness/points.json where every power base / sqrt / log argument of the formula and of the tree is "
        "positive (>= 3 such points, 50-digit re-evaluation on mismatch) decides equality of the two real functions",
        "reading of string_to_node's raw labels: Add Sub Mul Div are + - * /, other labels lower-cased (the reading fit_from_string applies)",
        "exponent position = right child of a pow node; numbers deeper inside an exponent sub-tree that get replaced are counted (noted), not judged"]
    return r.finish(exhaustive=(cfg["depth2"] is None and not replay))
