"""Entry point: ./check <id> [--tier quick|thorough] [--replay path].
Exit 0 = held on everything explored; 1 = VIOLATION printed; 2 = machinery failure."""
import argparse, importlib, os, sys, traceback


def main():
    ap = argparse.ArgumentParser()
    ap.add_argument("pid")
    ap.add_argument("--tier", default=os.environ.get("VERIF_TIER", "quick"), choices=["quick", "thorough"])
    ap.add_argument("--replay", default=None)
    a = ap.parse_args()
    pid = a.pid.upper()
    try:
        mod = importlib.import_module("checks." + pid.lower())
    except ImportError:
        traceback.print_exc()
        print("no check for", pid)
        sys.exit(2)
    try:
        rc = mod.run(a.tier, replay=a.replay)
    except SystemExit:
        raise
    except BaseException:
        traceback.print_exc()
        print("MACHINERY-FAILURE %s" % pid)
        sys.exit(2)
    sys.exit(rc)


main()
