"""C02 Every library function string denotes the tree on the same line."""
import io, contextlib
from harness import scratch, tlc, evidence, bases
from checks import common

PID = "C02"


def _infix(run, g, np, basis, n):
    name = bases.name_of(basis)
    res = tlc.must(tlc.run("Trees", "Trees_label.cfg", constants=bases.tla_consts(basis, n), workers=1, heap="8g"),
                   "LabelSpec")
    run.add_tlc(res, "infix_%s_n%d" % (name, n))
    bad = 0
    for c in res["json"]:
        try:
            _, _, tree = g.check_tree(np.array(c["shape"]))
            got = g.node_to_string(0, tree, c["labels"])
        except Exception as ex:
            got = "<raised %r>" % (ex,)
        if got != c["infix"] and bad < 5:
            bad += 1
            run.violation("infix:%s:%s" % (name, " ".join(c["labels"])),
                          "node_to_string(%s) = %r, Trees!Infix = %r" % (c["labels"], got, c["infix"]), c)
    run.add("infix", evaluations=len(res["json"]), nontrivial=len(res["json"]), traces=len(res["json"]))
    if n == 3:
        run.sample({"tree": res["json"][3]["labels"], "model_infix": res["json"][3]["infix"]})


def run(tier, replay=None):
    r = evidence.Run(PID, tier, "model_checking")
    s = scratch.make()
    scratch.activate(s)
    import numpy as np
    import esr.generation.generator as g
    S = bases.SHIPPED
    if tier == "quick":
        infix = [(S["core_maths"], 4), (S["keep_duplicates"], 3), (S["base10_maths"], 3)]
        libs = [("core_maths", 3), ("core_maths", 4), ("core_maths", 5), ("ext_maths", 4), ("osc_maths", 3), ("base10_maths", 3),
                ("base_e_maths", 4)]
    else:
        infix = [(S[k], n) for k in S for n in (2, 3, 4)] + [(S["core_maths"], 5), (S["core_maths"], 6)]
        libs = [(k, n) for k in S for n in (1, 2, 3, 4)] + [("core_maths", 5), ("core_maths", 6), ("ext_maths", 5), ("base_e_maths", 5),
                                                          ("osc_maths", 5), ("base10_maths", 5)]
    for basis, n in infix:
        _infix(r, g, np, basis, n)
    first = True
    # the same law for a library generated on several ranks (the strings are produced in per-rank blocks and reassembled)
    libs = [(name, n, 1) for name, n in libs] + ([("core_maths", 4, 3)] if tier == "quick" else [("core_maths", 4, 2), ("core_maths", 4, 5), ("ext_maths", 3, 3)])
    libs.append(("core_maths", 4, 0))          # P = 0: generated a second time into the directory that holds the first generation
    for name, n, P in libs:
        if P <= 1:
            L, _ = common.gen_library(r, s, name, n)
        else:
            L, _ = common.gen_library(r, scratch.make(), name, n, P=P)
        if L is None:
            continue
        ev, failed, det, _ = common.judge_library(r, L, "%s_n%d%s" % (name, n, "" if P == 1 else "_regenerated" if P == 0 else "_P%d" % P), common.C02_CLAUSES, c03=False)
        lines = [e for e in ev if e["kind"] == "line"]
        decided = sum(1 for e in lines if e["clsTree"] >= 0)
        for i, cl in sorted(failed.items())[:10]:
            e = ev[i]
            key = "%s:n%d:%sline%s" % (name, n, "" if P == 1 else "regenerated:" if P == 0 else "P%d:" % P, e.get("i", "hdr"))
            r.violation(key, "Library.tla clauses %s violated: %s" % (cl, det[i]), {"runname": name, "n": n, "event": e})
        r.add("library", evaluations=len(lines), nontrivial=decided, traces=1, **{"%s_n%d%s" % (name, n, "" if P == 1 else "_regenerated" if P == 0 else "_P%d" % P): [len(lines), decided]})
        if first and lines:
            r.sample({"library": name, "n": n, "event": lines[min(7, len(lines) - 1)]})
            if tier == "thorough" or n == 4:
                common.selftest_library(r, ev, "C02")
                first = False
    # (C) larger complexities without the deduplication rounds: trees_n / all_equations_n produced by the same calls main makes
    big = [("core_maths", 6), ("verif_long", 7), ("verif_inv", 7), ("verif_sqrtpow", 6), ("verif_mulsub", 7)] if tier == "quick" else \
        [("core_maths", 6), ("core_maths", 7), ("ext_maths", 5), ("keep_duplicates", 4), ("verif_long", 7), ("verif_inv", 7), ("verif_inv", 9), ("verif_sqrtpow", 6),
         ("verif_mulsub", 7)]
    S = dict(S, verif_long=[["x", "a"], ["log10_abs"], ["-"]],       # function strings of 80 and more characters (log(Abs(.))/log(10) nested)
             verif_inv=[["x"], ["inv"], ["+"]],                        # sums of reciprocals: rational coefficients p/q with p, q > 1
             verif_sqrtpow=[["x", "a"], ["sqrt_abs"], ["*", "pow"]],   # rational multiples of a parameter in exponents
             verif_mulsub=[["x", "a"], [], ["*", "-"]])                # three and four parameters of which some cancel (a0*(x - x) - a1): names with gaps
    import types, os
    from harness import lib as _lib, libio, libproj, coord
    for name, n in big:
        s2 = scratch.make()            # its own scratch copy: the library directory of this run name holds unfinished files
        out = scratch.libdir(s2, name, n)
        res = coord.run_ranks(1, "harness.targets:gen_strings", (name, n, S[name] if name.startswith("verif_") else None), s2, timeout=3000)
        if res["status"] != "ok":
            r.violation("gen_crash:%s:n%d" % (name, n), "tree and function lists of %s n=%d were not produced: %s\n%s" % (name, n, res["detail"], coord.tail(res["out"][0], 8)), {"runname": name, "n": n})
            continue
        L = types.SimpleNamespace(dir=out, n=n, runname=name, orig_trees=libio.read_trees(os.path.join(out, "orig_trees_%d.txt" % n)),
                                  extra_trees=libio.read_trees(os.path.join(out, "extra_trees_%d.txt" % n)), trees=libio.read_trees(os.path.join(out, "trees_%d.txt" % n)),
                                  all_eq=libio.read_lines(os.path.join(out, "all_equations_%d.txt" % n)), uniq=[], matches=[], inv_subs=[],
                                  aifeyn=libio.read_floats(os.path.join(out, "aifeyn_%d.txt" % n)))
        ev, failed, det, _ = common.judge_library(r, L, "strings_%s_n%d" % (name, n), common.C02_CLAUSES, c03=False, full=False)
        lines = [e for e in ev if e["kind"] == "line"]
        for i, cl in sorted(failed.items())[:10]:
            e = ev[i]
            r.violation("%s:n%d:line%s" % (name, n, e.get("i", "hdr")), "Library.tla clauses %s violated: %s" % (cl, det[i]), {"runname": name, "n": n, "event": e})
        r.add("library_strings_only", evaluations=len(lines), nontrivial=sum(1 for e in lines if e["clsTree"] >= 0), traces=1, **{"%s_n%d" % (name, n): len(lines)})
    r.cov["rule"] = ("(A) every labelled tree TLC enumerates: node_to_string == Trees!Infix token for token; (B) every line of every generated "
                     "library: P1 class of the tree (independent evaluator) vs P1 class of the stored string parsed by the generation table and "
                     "by Likelihood.run_sympify; non-trivial = lines whose tree is finite at >= 3 of the 24 generic points")
    r.assumptions += ["P1: agreement at 24 generic points (6 x, 4 parameter vectors), 50-digit re-evaluation on mismatch, decides equality of real functions",
                      "sympy.lambdify/evalf evaluate an already parsed expression correctly"]
    return r.finish(exhaustive=True)
