"""C03 Merging duplicates never changes a function: matches and parameter maps exact."""
import random
from harness import scratch, tlc, evidence, bases
from checks import common

PID = "C03"


def _round_steps(r, s, name, n, basis):
    """Conformance of real runs with Dedup.tla's RoundExact (observation, not a clause of C03): the full function list is recorded at the
    start of every round; for every function and round, string_r(x; A(theta)) must equal string_{r+1}(x; theta) with A the substitutions
    the round file records for that function.  A step that is not exact is counted (check_results may still repair the library)."""
    import csv, json, os
    from harness import lib, libproj, p1
    rec = os.path.join(s, "rounds_%s_%d.ndjson" % (name, n))
    if os.path.exists(rec):
        os.remove(rec)
    res = lib.generate(s, name, n, basis=basis, env={"ESR_VERIF_ROUNDS": rec})
    if res["status"] != "ok" or not os.path.exists(rec):
        return
    L = lib.Library(s, name, n)
    lists = [json.loads(l) for l in open(rec)]
    lists = [x for x in lists if len(x) == len(L.all_eq)]
    gen = libproj.Strs(p1.parse_gen)
    steps = exact = inexact = lost = undecided = 0
    bad = []
    for rd in range(len(lists) - 1):
        fsub = os.path.join(L.dir, "inv_subs_%d_round_%d.txt" % (n, rd))
        fidx = os.path.join(L.dir, "inv_idx_%d_round_%d.txt" % (n, rd))
        if not os.path.exists(fsub):
            break
        rows = [[e for e in row if e.strip()] for row in csv.reader(open(fsub), delimiter=";")]
        idx = [int(v) for v in open(fidx).read().split()]
        per = dict(zip(idx, rows))
        for i in range(len(L.all_eq)):
            a, b, row = lists[rd][i], lists[rd + 1][i], per.get(i, [])
            if a == b and not row:
                continue
            steps += 1
            try:
                chain = [libproj.parse_sub(c) for c in row]
            except libproj.BadChain:
                inexact += 1
                continue
            if any(c is None for c in chain):
                lost += 1
                continue
            v, why = libproj.map_exact(gen.expr(a), gen.expr(b), chain, libproj.nparam(b))
            if v == 1:
                exact += 1
            elif v == 0:
                inexact += 1
                if len(bad) < 3:
                    bad.append({"round": rd, "function": i, "before": a, "after": b, "recorded": row, "why": why[:120]})
            else:
                undecided += 1
    r.add("dedup_rounds", evaluations=steps, nontrivial=exact, rounds=len(lists) - 1,
          **{"%s_n%d" % (name, n): dict(steps=steps, exact=exact, unrecoverable=lost, inexact=inexact, undecided=undecided, inexact_samples=bad)})


def run(tier, replay=None):
    r = evidence.Run(PID, tier, "model_checking")
    s = scratch.make()
    scratch.activate(s)
    rng = random.Random(evidence.seed())
    subs = [b for b in bases.sub_bases() if 'a' in b[0]]    # parameter-free bases: see known finding under C13
    user = list(bases.USER_STYLE.items())
    if tier == "quick":
        libs = [("core_maths", 3, None), ("core_maths", 4, None), ("core_maths", 5, None), ("ext_maths", 4, None), ("base_e_maths", 4, None),
                ("keep_duplicates", 4, None)]        # the smallest shipped library in which check_results un-merges functions
        libs += [("verif_sub%d" % k, 4, subs[k]) for k in rng.sample(range(len(subs)), 2)]
        libs += [("verif_cube", 4, bases.USER_STYLE["verif_cube"])]
        libs += [("verif_sq", 5, [["x", "a"], ["square"], ["+"]])]       # smallest library with a sum of two even powers of different parameters
        libs += [("verif_mulpow", 7, [["x", "a"], [], ["*", "pow"]])]    # smallest library with three-parameter functions in which a middle parameter is absorbed
        libs += [("verif_mulsub", 7, [["x", "a"], [], ["*", "-"]])]      # smallest library whose rewriting phase needs two rounds with a substitution recorded in the first
        libs += [("verif_invlog", 5, [["x", "a"], ["inv", "log_abs"], ["+", "-", "*"]])]   # rewritten trees with log of a negative power under '-' (cheaper than base_e_maths n=5)
    else:
        libs = [(k, n, None) for k in bases.SHIPPED for n in (1, 2, 3, 4)]
        libs += [("core_maths", 5, None), ("core_maths", 6, None), ("ext_maths", 5, None), ("base_e_maths", 5, None), ("osc_maths", 5, None)]
        libs += [("verif_sub%d" % k, n, subs[k]) for k in rng.sample(range(len(subs)), 16) for n in (4, 5)]
        libs += [(k, n, b) for k, b in user for n in (3, 4)]
        libs += [("verif_sq", 5, [["x", "a"], ["square"], ["+"]]), ("verif_mulpow", 7, [["x", "a"], [], ["*", "pow"]]), ("verif_addmul", 7, [["x", "a"], [], ["+", "*"]]), ("verif_mulsub", 7, [["x", "a"], [], ["*", "-"]]),
                 ("verif_invlog", 5, [["x", "a"], ["inv", "log_abs"], ["+", "-", "*"]])]
    libs.append(("core_maths", 4, None))          # a second time: generated again into the directory that holds the first generation
    tested = False
    for name, n, basis in libs:
        L, _ = common.gen_library(r, s, name, n, basis=basis)
        if L is None:
            continue
        ev, failed, det, _ = common.judge_library(r, L, "%s_n%d" % (name, n), common.C03_CLAUSES, c02=False, seed=evidence.seed())
        lines = [e for e in ev if e["kind"] == "line"]
        nontriv = sum(1 for e in lines if (e["lost"] and e["family"] == 1) or (not e["lost"] and e["exact"] == 1 and L.inv_subs[e["i"]]))
        und = sum(1 for e in lines if (e["lost"] and e["family"] == -1) or (not e["lost"] and e["exact"] == -1))
        for i, cl in sorted(failed.items())[:10]:
            e = ev[i]
            key = "%s:n%d:%s" % (name, n, ("line%d" % e["i"]) if e["kind"] == "line" else e["kind"] + str(e.get("u", "")))
            r.violation(key, "Library.tla clauses %s violated: %s" % (cl, det[i]), {"runname": name, "n": n, "basis": basis, "event": e})
        r.add("library", evaluations=len(lines), nontrivial=nontriv, traces=1, undecided=und,
              **{"%s_n%d" % (name, n): dict(functions=len(lines), uniques=len(L.uniq), nontrivial_maps=nontriv, undecided=und)})
        if not tested and n >= 4:
            common.selftest_library(r, ev, "C03")
            tested = True
            ex = [e for e in lines if not e["lost"] and L.inv_subs[e["i"]]]
            if ex:
                r.sample({"library": name, "n": n, "function": L.all_eq[ex[0]["i"]], "unique": L.uniq[ex[0]["match"]],
                          "map": L.inv_subs[ex[0]["i"]], "event": ex[0]})
    for name, n, basis in ([("core_maths", 4, None), ("base_e_maths", 4, None)] if tier == "quick" else
                           [("core_maths", 5, None), ("base_e_maths", 4, None), ("ext_maths", 4, None), ("keep_duplicates", 4, None)]):
        _round_steps(r, scratch.make(), name, n, basis)
    res = tlc.must(tlc.run("Dedup", "Dedup_mc.cfg", constants=dict(NF="2", NC="1", NBlocks="1", MaxRounds="2", Faults="0", Repair="FALSE"), workers=8, heap="8g"), "Dedup")
    r.add_tlc(res, "dedup_model_fault_free")
    for v in res["violated"]:
        r.violation("model:" + v, "Dedup.tla invariant %s violated in the fault-free configuration (design of the round bookkeeping)" % v)
    # the same argument for any group of reparametrisations, any number of functions and rounds (TLAPS); Dedup.tla's ASSUMEs GroupLaws and
    # ComposeAppend (checked by TLC in the run above) are what links the concrete model to the proof's assumptions
    common.prove(r, "DedupProofs", tier, "recording g = h^-1 . h' for a rewrite h -> h' keeps every function exact (RoundExact)", selftests=[
        ("DedupProofs.tla", "acc' = [acc EXCEPT ![i] = Mul(acc[i], Mul(Inv(hs[i]), hn))]", "acc' = [acc EXCEPT ![i] = Mul(acc[i], Mul(hn, Inv(hs[i])))]")])
    r.cov["rule"] = ("every function line of every generated library is one event of the trace judged by Library.tla; exactness of the recorded "
                     "map is decided by P1 on function(x; p(theta)) vs unique(x; theta) with an independent composer of the file's chain; "
                     "non-trivial = lines with a non-empty map proven exact, or unrecoverable lines whose family equality was established")
    r.assumptions += ["P1 decides equality of real functions", "least-squares family test (1e-6, multi-start) for unrecoverable maps"]
    return r.finish(exhaustive=False)
