"""C03 Merging duplicates never changes a function: matches and parameter maps exact."""
import random
from harness import scratch, tlc, evidence, bases
from checks import common

PID = "C03"


def run(tier, replay=None):
    r = evidence.Run(PID, tier, "model_checking")
    s = scratch.make()
    scratch.activate(s)
    rng = random.Random(evidence.seed())
    subs = [b for b in bases.sub_bases() if 'a' in b[0]]    # parameter-free bases: see known finding under C13
    user = list(bases.USER_STYLE.items())
    if tier == "quick":
        libs = [("core_maths", 3, None), ("core_maths", 4, None), ("core_maths", 5, None), ("ext_maths", 4, None), ("base_e_maths", 4, None),
                ("keep_duplicates", 4, None)]        # the smallest shipped library in which check_results un-merges functions
        libs += [("verif_sub%d" % k, 4, subs[k]) for k in rng.sample(range(len(subs)), 2)]
        libs += [("verif_cube", 4, bases.USER_STYLE["verif_cube"])]
    else:
        libs = [(k, n, None) for k in bases.SHIPPED for n in (1, 2, 3, 4)]
        libs += [("core_maths", 5, None), ("core_maths", 6, None), ("ext_maths", 5, None), ("base_e_maths", 5, None), ("osc_maths", 5, None)]
        libs += [("verif_sub%d" % k, n, subs[k]) for k in rng.sample(range(len(subs)), 16) for n in (4, 5)]
        libs += [(k, n, b) for k, b in user for n in (3, 4)]
    tested = False
    for name, n, basis in libs:
        L, _ = common.gen_library(r, s, name, n, basis=basis)
        if L is None:
            continue
        ev, failed, det, _ = common.judge_library(r, L, "%s_n%d" % (name, n), common.C03_CLAUSES, c02=False, seed=evidence.seed())
        lines = [e for e in ev if e["kind"] == "line"]
        nontriv = sum(1 for e in lines if (e["lost"] and e["family"] == 1) or (not e["lost"] and e["exact"] == 1 and L.inv_subs[e["i"]]))
        und = sum(1 for e in lines if (e["lost"] and e["family"] == -1) or (not e["lost"] and e["exact"] == -1))
        for i, cl in sorted(failed.items())[:10]:
            e = ev[i]
            key = "%s:n%d:%s" % (name, n, ("line%d" % e["i"]) if e["kind"] == "line" else e["kind"] + str(e.get("u", "")))
            r.violation(key, "Library.tla clauses %s violated: %s" % (cl, det[i]), {"runname": name, "n": n, "basis": basis, "event": e})
        r.add("library", evaluations=len(lines), nontrivial=nontriv, traces=1, undecided=und,
              **{"%s_n%d" % (name, n): dict(functions=len(lines), uniques=len(L.uniq), nontrivial_maps=nontriv, undecided=und)})
        if not tested and n >= 4:
            common.selftest_library(r, ev, "C03")
            tested = True
            ex = [e for e in lines if not e["lost"] and L.inv_subs[e["i"]]]
            if ex:
                r.sample({"library": name, "n": n, "function": L.all_eq[ex[0]["i"]], "unique": L.uniq[ex[0]["match"]],
                          "map": L.inv_subs[ex[0]["i"]], "event": ex[0]})
    r.cov["rule"] = ("every function line of every generated library is one event of the trace judged by Library.tla; exactness of the recorded "
                     "map is decided by P1 on function(x; p(theta)) vs unique(x; theta) with an independent composer of the file's chain; "
                     "non-trivial = lines with a non-empty map proven exact, or unrecoverable lines whose family equality was established")
    r.assumptions += ["P1 decides equality of real functions", "least-squares family test (1e-6, multi-start) for unrecoverable maps"]
    return r.finish(exhaustive=False)
