"""C10 Parameter optimisation reaches the maximum-likelihood point on well-posed fits.

Part 1 (model checking): spec/Opt.tla transcribes the loop of test_all.optimise_fun:191-284; TLC proves the
postconditions (returned value = minimum of everything consumed, parameters/signs of a position attaining it,
stop by Niter) for every result sequence, and emits behaviours (result histories + the model's answer) that are
replayed on the real optimise_fun with `esr.fitting.test_all.minimize` scripted.  spec/OptJudge.tla judges what
the code returned (clauses name the failed postcondition / loop rule).
Part 2 (exploration): real BFGS fits of linear-in-parameter Gaussian models against the closed-form WLS optimum;
every real `minimize` call is recorded and the recorded loop is judged by the same OptJudge (trace validation)."""
import itertools, json, os, random, threading, time
from concurrent.futures import ThreadPoolExecutor
from harness import scratch, tlc, evidence, pool, optdrive

PID = "C10"
INF = optdrive.INF
VALS = "{0,1,2,8,10,20}"          # unit 1/4: differences cover 0, <0.5, =0.5, (0.5,2), =2, >2
T05, T2 = 2, 8
NITER_DEFAULT, NCONV_DEFAULT = [40, 60], [5, 20]      # the routine's own defaults (fit_single, main)


def _consts(mode, niter, nconv, infmax=50, vals=VALS, prefix="<<>>", step=False, variant="code"):
    return {"Variant": '"%s"' % variant, "Mode": '"%s"' % mode, "Niter": str(niter), "Nconv": str(nconv), "InfMax": str(infmax),
            "T05": str(T05), "T2": str(T2), "Vals": vals, "Prefix": prefix, "StepEmit": "TRUE" if step else "FALSE"}


def _vec(mode, v):
    nb = {"lin": 1, "log1": 2, "log2": 4}[mode]
    return "<<" + ",".join([str(v)] * nb) + ">>"


def _prefix(mode, vals):
    return "<<" + ",".join(_vec(mode, v) for v in vals) + ">>"


def _emissions(quick):
    """(part, mode, cfg, constants, run kwargs, niter, nconv, cap in the quick tier)"""
    E = []
    # exhaustive complete behaviours
    E.append(("lin_all_len4", "lin", "Opt_emit.cfg", _consts("lin", 4, 2), {}, 4, 2, None))
    E.append(("lin_all_len5_nconv3", "lin", "Opt_emit.cfg", _consts("lin", 5, 3, vals="{0,1,2,8,10}"), {}, 5, 3, 1000))
    if not quick:
        E.append(("log1_all_len3", "log1", "Opt_emit.cfg", _consts("log1", 3, 2), {}, 3, 2, None))
        E.append(("log2_all_len2", "log2", "Opt_emit.cfg", _consts("log2", 2, 1, vals="{0,1,10}"), {}, 2, 1, None))
    # every transition of the loop's state machine from a representative history, with paddings (VIEW)
    E.append(("log1_transitions", "log1", "Opt_view.cfg", _consts("log1", 4, 2, step=True), {}, 4, 2, 4000))
    E.append(("log2_transitions", "log2", "Opt_view.cfg", _consts("log2", 4, 2, vals="{0,1,10}", step=True), {}, 4, 2, 5000))
    # random long behaviours over the whole alphabet
    nsim = 400 if quick else 4000
    for mode in ("lin", "log1", "log2"):
        E.append(("%s_random_len8" % mode, mode, "Opt_sim.cfg", _consts(mode, 8, 3),
                  {"simulate": "num=%d" % nsim, "depth": 10, "seed": evidence.seed() + 11}, 8, 3, None))
    # the 50-infinities rule: 48 or 49 all-infinite iterations, then everything (Niter 53)
    for mode, vals in (("lin", "{0,1,10}"), ("log1", "{0,10}"), ("log2", "{0}")):
        for k in (48, 49):
            E.append(("%s_after_%d_inf" % (mode, k), mode, "Opt_view.cfg",
                      _consts(mode, 53, 2, vals=vals, prefix=_prefix(mode, [INF] * k), step=True), {}, 53, 2, 600))
        # a finite result first: 50 infinities later do not stop the loop
        E.append(("%s_finite_then_49_inf" % mode, mode, "Opt_view.cfg",
                  _consts(mode, 53, 2, vals=vals, prefix=_prefix(mode, [8] + [INF] * 49), step=True), {}, 53, 2, 300))
    return E


def _fit_cases(quick):
    import numpy as np
    ST = {"lin": [[]], "log1": [[1], [-1]], "log2": [[1, 1], [-1, 1], [1, -1], [-1, -1]]}
    cases = []
    nseeds = 1 if quick else 4
    for sd in range(nseeds):
        for fam, (fstr, cols) in optdrive.FAMILIES.items():
            npar = len(cols(np.array([1.0])))
            for signs in itertools.product([1, -1], repeat=npar):
                for mag in (0.5, 3.0, 30.0):
                    for lo in (False, True):
                        if quick and fam == "quad" and lo and mag != 3.0:
                            continue           # three parameters: log_opt changes nothing but the call site
                        mode = "lin" if (npar >= 3 or not lo) else "log%d" % npar
                        k = len(cases)
                        cases.append({"id": k, "kind": "fit", "fstr": fstr, "family": fam, "mode": mode, "signtable": ST[mode],
                                      "theta": [sg * mag * (1 + 0.15 * j) for j, sg in enumerate(signs)], "sigma": 0.1, "n": 30,
                                      "dseed": 7919 * evidence.seed() + 101 * sd + k, "seed": 104729 * evidence.seed() + 1009 * sd + k,
                                      "log_opt": lo, "niter": NITER_DEFAULT, "nconv": NCONV_DEFAULT,
                                      "niter_n": NITER_DEFAULT[0] + NITER_DEFAULT[1] * npar, "nconv_n": NCONV_DEFAULT[0] + NCONV_DEFAULT[1] * npar})
    # a weakly detected parameter in a large data set (|NLL| ~ 1e5, the optimum only ~1 nat below the value at a0 -> 0): the sign branches
    # differ by less than 1e-5 of the likelihood, and the result must still be the WLS minimum (tolerance max(1e-3, 1e-6 |NLL|) = 0.13 nat)
    for sgn in (1, -1):
        for lo in (False, True):
            for fam, th in (("prop", [sgn * 1.2]), ("const", [sgn * 2.3])):          # noise-free: the optimum is ~0.57 nat below the value at a0 -> 0
                k = len(cases)
                cases.append({"id": k, "kind": "fit", "fstr": optdrive.FAMILIES[fam][0], "family": fam, "mode": "log1" if lo else "lin", "signtable": ST["log1" if lo else "lin"],
                              "theta": th, "sigma": 300.0, "n": 20000, "noise": 0.0, "dseed": 7919 * evidence.seed() + k, "seed": 104729 * evidence.seed() + k,
                              "log_opt": lo, "niter": NITER_DEFAULT, "nconv": NCONV_DEFAULT, "niter_n": NITER_DEFAULT[0] + NITER_DEFAULT[1], "nconv_n": NCONV_DEFAULT[0] + NCONV_DEFAULT[1]})
    for f in ("x*x", "inv(x) + x", "sqrt(x)"):
        cases.append({"id": len(cases), "kind": "free", "fstr": f, "sigma": 0.1, "dseed": 1, "log_opt": False, "seed": 1,
                      "niter": NITER_DEFAULT, "nconv": NCONV_DEFAULT})
    for f in ("a0 + inv(x - x)*(x - x)", "a0*log(x - 2)*(x - 2)", "a0*(exp(1000*x) - exp(1001*x))", "a0*log(x - 2)*(x - 2) + a1",
              "a0*log(x - 2)*(x - 2) + a1 + a2*x"):
        for lo in (False, True):
            cases.append({"id": len(cases), "kind": "nan", "fstr": f, "sigma": 0.1, "dseed": 1, "log_opt": lo, "seed": 1,
                          "niter": NITER_DEFAULT, "nconv": NCONV_DEFAULT})
    return cases


def _run_pool(target, cases, s, tag, nproc, order_key=None):
    """cases -> {id: observation}; a worker that dies is a machinery failure"""
    if not cases:
        return {}
    args = []
    for j, ch in enumerate(pool.chunk(cases, nproc)):
        ip, op = os.path.join(s, "%s_in_%d.json" % (tag, j)), os.path.join(s, "%s_out_%d.json" % (tag, j))
        json.dump(ch, open(ip, "w"))
        args.append((ip, op, os.path.join(s, "%s_w_%d" % (tag, j))))
    out = pool.parallel(target, args, s, timeout=3000)
    res = {}
    for (rc, tail), a in zip(out, args):
        if rc != 0:
            raise RuntimeError("%s worker failed: %s" % (target, tail))
        for x in json.load(open(a[1])):
            res[x["id"]] = x
    return res


def _replay_one(path):
    """re-run the single case of a replay file (scripted history or real fit) and judge it; no evidence file is written"""
    case = json.load(open(path))["replay"]["case"]
    s = scratch.make()
    if "hist" in case:
        c = dict(case, id=0)
        o = _run_pool("harness.optdrive:replay_batch", [{k: v for k, v in c.items() if k != "ans"}], s, "rep", 1)[0]
        if "raised" in o:
            print("VIOLATION property=%s replay=%s\n  optimise_fun raised %s" % (PID, path, o["raised"]))
            return 1
        jc = {"id": 0, "kind": "script", "mode": c["mode"], "niter": c["niter"], "nconv": c["nconv"], "t05": T05, "t2": T2, "hist": c["hist"], "obs": o["obs"],
              "flags": [{"name": "branches_called_with_signs_of_table", "ok": o["bad_branch"] == 0 and o["order"] == list(range(1, len(c["signtable"]) + 1))}]}
    else:
        c = dict(case, id=0)
        o = _run_pool("harness.optdrive:fit_batch", [c], s, "fit", 1)[0]
        if "raised" in o:
            print("VIOLATION property=%s replay=%s\n  optimise_fun raised %s" % (PID, path, o["raised"]))
            return 1
        jc = _fit_judge_case(0, c, o)
    _, failed = tlc.judge("OptJudge", [jc])
    if failed:
        print("VIOLATION property=%s replay=%s\n  clauses %s\n  observed %s" % (PID, path, failed[0], {k: v for k, v in o.items() if k not in ("funs", "hist")}))
        return 1
    print("PASS %s replay: the case of %s is accepted now (%s)" % (PID, path, o.get("obs")))
    return 0


def _fit_judge_case(i, c, o):
    chi2 = o["chi2"]
    if c["kind"] == "free":
        return _flag_case(i, [{"name": "parameter_free_evaluated_directly", "ok": abs(chi2 - o["direct"]) <= 1e-9 * max(1.0, abs(o["direct"]))},
                              {"name": "parameter_free_params_are_zero", "ok": all(v == 0.0 for v in o["params"]) and o["ncalls"] == 0}])
    if c["kind"] == "nan":
        return _flag_case(i, [{"name": "nan_function_is_plus_infinity", "ok": chi2 == float("inf")},
                              {"name": "nan_function_not_optimised", "ok": o["ncalls"] == 0 and all(v == 0.0 for v in o["params"])}])
    ref, at = o["ref"], o["at_params"]
    flags = [{"name": "nll_is_wls_minimum", "ok": abs(chi2 - ref) <= max(1e-3, 1e-6 * abs(ref))},
             {"name": "nll_at_returned_parameters", "ok": abs(at - chi2) <= 1e-9 * max(1.0, abs(chi2))},
             {"name": "branches_called_with_signs_of_table", "ok": bool(o["order_ok"])},
             {"name": "starts_inside_search_box", "ok": bool(o.get("starts_in_box", False))}]
    if o["order_ok"] and not o["borderline"]:
        return {"id": i, "kind": "trace", "mode": c["mode"], "niter": c["niter_n"], "nconv": c["nconv_n"],
                "t05": optdrive.UNIT_TRACE // 2, "t2": 2 * optdrive.UNIT_TRACE, "hist": o["hist"], "obs": o["obs"], "flags": flags}
    return _flag_case(i, flags)


def run(tier, replay=None):
    if replay:
        return _replay_one(replay)
    r = evidence.Run(PID, tier, "model_checking")
    s = scratch.make()
    quick = tier == "quick"
    rng = random.Random(evidence.seed())

    # ---- real fits start now in 3 worker processes (they are the long pole); TLC uses the other cores meanwhile
    fits = _fit_cases(quick)
    fit_box = {}

    def _fits():
        try:
            fit_box["res"] = _run_pool("harness.optdrive:fit_batch", sorted(fits, key=lambda c: (c["id"] * 7) % 13), s, "fit", 3)
        except BaseException as e:           # re-raised in the main thread
            fit_box["err"] = e
    th = threading.Thread(target=_fits)
    th.start()

    # ---- 1. the loop, every result sequence: postconditions as invariants;  2. behaviours for the replay.
    # TLC runs are independent: three at a time (one worker each; two for the largest).
    tasks = []
    for mode in ("log2", "log1", "lin"):
        vals = "{0,1,2,8,10}" if (quick and mode == "log2") else VALS
        tasks.append(("mc", "loop_%s_niter4_nconv2_inf2" % mode, mode, "Opt_mc.cfg", _consts(mode, 4, 2, infmax=2, vals=vals),
                      {"workers": 2 if mode == "log2" else 1}, None))
    if not quick:
        for mode, vals in (("log2", "{0,1,2,8,10}"), ("log1", VALS), ("lin", VALS)):
            tasks.append(("mc", "loop_%s_niter6_nconv3_inf3" % mode, mode, "Opt_mc.cfg", _consts(mode, 6, 3, infmax=3, vals=vals),
                          {"workers": 2 if mode == "log2" else 1, "heap": "6g"}, None))
    # negative control of the model: without the re-creation of mult_arr per iteration the sign array of the best
    # result is overwritten by later iterations -- TLC must see it (otherwise the alias bit of the model is dead)
    tasks.append(("neg", "negative_control_norebind", "log2", "Opt_mc.cfg", _consts("log2", 4, 2, infmax=2, vals="{0,1,10}", variant="norebind"), {"workers": 1}, None))
    for part, mode, cfg, consts, kw, niter, nconv, cap in _emissions(quick):
        tasks.append(("emit", part, mode, cfg, consts, dict(kw, workers=1), (niter, nconv, cap)))

    def _tlc(t):
        return tlc.run("Opt", t[3], constants=t[4], **t[5])
    t0 = time.time()
    with ThreadPoolExecutor(max_workers=3) as ex:
        results = list(ex.map(_tlc, tasks))
    phases = {"tlc_model_and_emission_s": round(time.time() - t0, 1)}

    scripted, nbeh = [], {}
    for t, res in zip(tasks, results):
        kind, part, mode = t[0], t[1], t[2]
        if kind == "neg":
            if "SignArrayOfBest" not in res["violated"]:
                raise tlc.TLCError("negative control: Opt.tla without Rebind does not violate SignArrayOfBest\n" + res["out"][-1500:])
            continue
        tlc.must(res, part)
        r.add_tlc(res, part if kind == "mc" else "emit_" + part)
        for v in res["violated"]:
            r.violation("model:%s:%s" % (mode if kind == "mc" else part, v),
                        "Opt.tla (%s): the transcription of the loop violates %s: the code's logic breaks a postcondition of C10\n%s"
                        % (part, v, res["out"][-1500:]), {"part": part, "mode": mode, "invariant": v})
        if kind != "emit":
            continue
        niter, nconv, cap = t[6]
        seen, recs = set(), []
        for j in res["json"]:
            if isinstance(j, dict) and "hist" in j:
                k = json.dumps(j["hist"])
                if k not in seen:
                    seen.add(k)
                    recs.append(j)
        if not recs:
            raise tlc.TLCError("emission %s produced no behaviour\n%s" % (part, res["out"][-1500:]))
        recs.sort(key=lambda j: json.dumps(j["hist"]))
        if quick and cap is not None and len(recs) > cap:
            recs = rng.sample(recs, cap)
        nbeh[part] = len(recs)
        for j in recs:
            for fstr, lo in optdrive.CONFIGS[mode]:
                scripted.append({"id": len(scripted), "part": part, "mode": mode, "fstr": fstr, "log_opt": lo, "niter": niter, "nconv": nconv,
                                 "hist": j["hist"], "signtable": j["signtable"], "ans": j["ans"]})
    t0 = time.time()
    obs = _run_pool("harness.optdrive:replay_batch", [{k: v for k, v in c.items() if k != "ans"} for c in scripted], s, "rep",
                    3 if th.is_alive() else 6)          # at most 6 worker processes at any time
    phases["scripted_replay_s"] = round(time.time() - t0, 1)
    t0 = time.time()
    th.join()
    phases["waiting_for_real_fits_s"] = round(time.time() - t0, 1)
    if "err" in fit_box:
        raise fit_box["err"]
    fobs = fit_box["res"]

    # ---- 3. judge: scripted runs
    cases, meta = [], []
    ties = 0
    for c in scripted:
        o = obs[c["id"]]
        if "raised" in o:
            r.violation("script:raised:%s:%s" % (c["mode"], o["raised"].split(":")[0]),
                        "optimise_fun raised %s on scripted history %s (%s, log_opt=%s)" % (o["raised"], c["hist"], c["fstr"], c["log_opt"]), {"case": c})
            continue
        flags = [{"name": "branches_called_with_signs_of_table", "ok": o["bad_branch"] == 0 and o["order"] == list(range(1, len(c["signtable"]) + 1))}]
        cases.append({"id": len(cases), "kind": "script", "mode": c["mode"], "niter": c["niter"], "nconv": c["nconv"], "t05": T05, "t2": T2,
                      "hist": c["hist"], "obs": o["obs"], "flags": flags})
        meta.append(("script", c, o))
    # ---- real fits: numeric postconditions (P5, P3) + the recorded loop
    nfit = ntrace = nborder = 0
    for c in fits:
        o = fobs[c["id"]]
        if "raised" in o:
            r.violation("fit:raised:%s" % o["raised"].split(":")[0], "optimise_fun raised %s on %s" % (o["raised"], c), {"case": c})
            continue
        jc = _fit_judge_case(len(cases), c, o)
        cases.append(jc)
        if c["kind"] == "fit":
            nfit += 1
            ntrace += 1 if jc["kind"] == "trace" else 0
            nborder += 1 if o.get("borderline") else 0
        meta.append((c["kind"], c, o))
    # binding self-test: corrupted copies of runs that agree with the model must be rejected by the judge with the
    # clause of the corrupted field; an accepted corruption is a machinery failure (exit 2)
    selftest = _corruptions(cases, meta, len(cases), rng)
    jres, failed = tlc.judge("OptJudge", cases + [c for c, _ in selftest], heap="6g", timeout=3000)
    r.add_tlc(jres, "judge")
    for c, want in selftest:
        if want not in failed.get(c["id"], []):
            raise tlc.TLCError("binding self-test: corrupted observation accepted (expected clause %s, got %s): %s" % (want, failed.get(c["id"]), c))
    failed = {i: cl for i, cl in failed.items() if i < len(meta)}
    r.cov["parts"].setdefault("judge", {})["selftest_corruptions_rejected"] = len(selftest)
    r.cov["parts"]["phases_wall"] = phases           # information only; no verdict depends on time

    # direct comparison with the answer the model printed (value and iterations must be the model's whenever the
    # judge accepts; a different winner that the judge accepts is a tie, which the property leaves free)
    for i, (kind, c, o) in enumerate(meta):
        if kind != "script":
            continue
        a, ob = c["ans"], o["obs"]
        if i not in failed:
            if (a["value"], a["n"]) != (ob["value"], ob["n"]):
                raise tlc.TLCError("judge accepted a run whose value/iterations differ from the model's answer: %s vs %s" % (a, ob))
            if (a["it"], a["br"]) != (ob["it"], ob["br"]):
                ties += 1

    # ---- verdicts
    confirm = []
    for i, cl in sorted(failed.items()):
        kind, c, o = meta[i]
        if kind == "script":
            key = "script:%s:%s:log_opt=%s:%s" % (c["mode"], c["fstr"].replace(" ", ""), c["log_opt"], ",".join(cl))
            txt = ("real optimise_fun deviates on a scripted history: clauses %s\n  mode %s, function %s, log_opt=%s, Niter=%d, Nconv=%d\n"
                   "  history (unit 1/4, %d = inf; one vector of branch values per iteration): %s\n  model: %s\n  code : %s returned chi2=%s params=%s calls=%s"
                   % (cl, c["mode"], c["fstr"], c["log_opt"], c["niter"], c["nconv"], INF, c["hist"], c["ans"], o["obs"], o["chi2"], o["params"], o["calls"]))
            r.violation(key, txt, {"case": c, "observed": o, "clauses": cl})
        else:
            key = "%s:%s:log_opt=%s:%s" % (kind, c.get("family", c["fstr"].replace(" ", "")), c["log_opt"], ",".join(cl))
            confirm.append((key, cl, c, o))
    # a failing real fit is re-run in a fresh process before it is reported (soundness rule 2)
    if confirm:
        again = _run_pool("harness.optdrive:fit_batch", [c for _, _, c, _ in confirm[:12]], s, "again", 3)
        for key, cl, c, o in confirm[:12]:
            o2 = again[c["id"]]
            same = o2.get("chi2") == o.get("chi2") and o2.get("params") == o.get("params")
            if not same:
                raise RuntimeError("real fit %s is not reproducible in a fresh process: %s vs %s" % (c, o.get("chi2"), o2.get("chi2")))
            txt = ("real fit violates clauses %s\n  function %s log_opt=%s true theta=%s sigma=%s n=%s data seed=%s numpy seed=%s Niter_params=%s Nconv_params=%s\n"
                   "  returned NLL %s, closed-form minimum %s at %s, L(returned params) %s, params %s, iterations %s"
                   % (cl, c["fstr"], c["log_opt"], c.get("theta"), c["sigma"], c.get("n"), c["dseed"], c["seed"], c["niter"], c["nconv"],
                      o.get("chi2"), o.get("ref"), o.get("theta_ref"), o.get("at_params"), o.get("params"), (o.get("obs") or {}).get("n")))
            r.violation(key, txt, {"case": c, "observed": {k: v for k, v in o.items() if k not in ("funs",)}, "clauses": cl})

    # ---- coverage
    def nontrivial_script(c):
        a = c["ans"]
        return a["it"] > 1 or a["br"] > 1
    nscr = sum(1 for k, c, o in meta if k == "script")
    nt_s = sum(1 for k, c, o in meta if k == "script" and nontrivial_script(c))
    nt_f = sum(1 for k, c, o in meta if k == "fit" and any(t < 0 for t in c["theta"]))
    r.add("scripted_replay", evaluations=nscr, nontrivial=nt_s, traces=nscr, behaviours=nbeh, tie_winner_differs=ties,
          stop_reasons={w: sum(1 for k, c, o in meta if k == "script" and c["ans"]["why"] == w) for w in ("conv", "niter", "inf")})
    r.add("real_fits", evaluations=nfit, nontrivial=nt_f, traces=ntrace, borderline_traces_not_judged=nborder,
          special_cases=sum(1 for k, c, o in meta if k in ("free", "nan")), Niter_params=NITER_DEFAULT, Nconv_params=NCONV_DEFAULT)
    for want in ("log2", "log1", "lin"):
        for k, c, o in meta:
            if k == "script" and c["mode"] == want and nontrivial_script(c) and c["part"].endswith("transitions" if want != "lin" else "len4"):
                r.sample({"scripted": {"mode": c["mode"], "function": c["fstr"], "log_opt": c["log_opt"], "Niter": c["niter"], "Nconv": c["nconv"],
                                       "history": c["hist"], "model": c["ans"], "code": o["obs"], "returned_params": o["params"]}})
                break
    for k, c, o in meta:
        if k == "fit" and c["mode"] == "log2" and c["theta"][0] < 0 < c["theta"][1]:
            r.sample({"real_fit": {"function": c["fstr"], "theta": c["theta"], "log_opt": True, "returned_nll": o["chi2"], "wls_nll": o["ref"],
                                   "params": o["params"], "iterations": o["obs"]["n"], "winner": [o["obs"]["it"], o["obs"]["br"]], "signs": o["obs"]["signs"]}})
            break
    for k, c, o in meta:
        if k == "fit" and c["family"] == "quad" and min(c["theta"]) < 0:
            r.sample({"real_fit": {"function": c["fstr"], "theta": c["theta"], "log_opt": c["log_opt"], "returned_nll": o["chi2"], "wls_nll": o["ref"],
                                   "params": o["params"], "iterations": o["obs"]["n"] if "obs" in o else None}})
            break
    r.cov["rule"] = ("scripted: behaviours of Opt.tla (all complete histories of length <= 4/5 in linear mode%s; every transition of the loop's state machine "
                     "from a representative history with three paddings in the log modes (TLC VIEW)%s; TLC -simulate histories of length <= 8; histories around the "
                     "50-infinities rule) replayed on the real optimise_fun with esr.fitting.test_all.minimize scripted, on every call site (1, 2, 3 parameters, "
                     "log_opt on/off); OptJudge decides.  non-trivial scripted = the model's winner is not (iteration 1, branch (+,+)).  real fits: 4 linear "
                     "families x all sign patterns x |theta| in {0.5, 3, 30} x log_opt on/off x %d seed(s), default Niter/Nconv parameters, against closed-form WLS; "
                     "non-trivial real = at least one negative true parameter; traces = runs whose recorded loop was judged"
                     % ("" if quick else ", of length <= 3 for one parameter and <= 2 for two parameters in log mode", ", seeded samples in the quick tier" if quick else "",
                        1 if quick else 4))
    r.assumptions += ["scripted values are multiples of 1/4 (exact in binary floating point); recorded values are projected to integers in units of 1e-6 with gaps "
                      "above 3 shortened to 3 (P2); a recorded run with a pair of values within 2e-6 of a threshold (0.5, 2) is not trace-judged",
                      "NaN is not a result value: every negloglike of likelihood.py maps NaN to +inf",
                      "which of several positions attaining the minimum wins is left free (the code takes the first; `<` vs `<=` is not observable in the property)",
                      "test_success=True (skip unsuccessful results) is not modelled: no caller in the package sets it",
                      "P5: closed-form WLS by lstsq on the weighted design matrix of the harness; tolerance max(1e-3, 1e-6 |NLL|)",
                      "convergence of the real BFGS to the optimum is observed on the listed fits (exploration), not proved"]
    return r.finish(exhaustive=False)


def _corruptions(cases, meta, base, rng):
    """[(corrupted case, clause that must fail)] from scripted/recorded runs that agree with the model's printed answer"""
    out = []
    good = [i for i, (k, c, o) in enumerate(meta) if k == "script" and o["obs"]["value"] != INF
            and all(c["ans"][f] == o["obs"][f] for f in ("value", "n", "it", "br", "signs", "back")) and o["obs"]["padok"]]
    for i in rng.sample(good, min(40, len(good))):
        c0 = cases[i]
        o0 = c0["obs"]
        muts = [("returned_value_is_minimum", dict(o0, value=o0["value"] + 1)),
                ("zero_padding", dict(o0, padok=False))]
        why = meta[i][1]["ans"]["why"]
        stop = {"conv": "stops_when_converged", "inf": "stops_after_50_inf", "niter": "stops_at_niter"}[why]
        muts.append((stop, dict(o0, n=o0["n"] - 1)))
        other = [(it, br) for it in range(1, o0["n"] + 1) for br in range(1, len(c0["hist"][0]) + 1) if c0["hist"][it - 1][br - 1] != o0["value"]]
        if other:
            muts.append(("parameters_of_winner", dict(o0, it=other[0][0], br=other[0][1])))
        if o0["signs"]:
            muts.append(("signs_of_winner", dict(o0, signs=[-o0["signs"][0]] + o0["signs"][1:])))
        muts.append(("signs_of_winner", dict(o0, back="id" if o0["back"] == "pow10" else "pow10")))
        for want, ob in muts:
            out.append((dict(c0, id=base + len(out), obs=ob), want))
    return out


def _flag_case(i, flags):
    """a case judged on its projected numeric facts only"""
    return {"id": i, "kind": "flags", "mode": "lin", "niter": 1, "nconv": 1, "t05": T05, "t2": T2, "hist": [],
            "obs": {"value": INF, "n": 0, "it": 0, "br": 0, "back": "none", "signs": [], "padok": True}, "flags": flags}
