#!/bin/sh
# tools/import_seeded10.sh C03 ... : mini round eleven (deliverable /tmp/mut/out9/<P>/1) -> /verif/seeded/<P>_11
for p in "$@"; do
  [ -f /tmp/mut/out9/$p/1/patch.diff ] || continue
  d=/verif/seeded/${p}_11
  mkdir -p $d /verif/seeded/stubs/${p}_11
  cp -r /tmp/mut/out9/$p/stub/. /verif/seeded/stubs/${p}_11/
  for f in /tmp/mut/out9/$p/1/*; do case "$f" in *.py|*.json|*.diff|*.txt|*.dat) cp "$f" $d/ ;; esac; done
  sed -i "s#/tmp/mut/out9/$p/stub#/verif/seeded/stubs/${p}_11#g; s#/tmp/mut/out9/$p/1#$d#g" $d/*.py
  # demos of this round take the checkout as argv[1]; tools/seeded.py passes it in ESR_WT
  sed -i 's#os.path.abspath(sys.argv\[1\])#os.path.abspath(sys.argv[1] if len(sys.argv) > 1 else os.environ["ESR_WT"])#' $d/demo.py
done
