#!/bin/sh
# tools/import_seeded3.sh C02 ... : later rounds (deliverables under /tmp/mut/out9/<P>/<k>) -> /verif/seeded/<P>_<k+6>
for p in "$@"; do
  for k in 1 2 3; do
    [ -f /tmp/mut/out9/$p/$k/patch.diff ] || continue
    n=$((k+8))
    d=/verif/seeded/${p}_$n
    mkdir -p $d /verif/seeded/stubs/${p}_$n
    [ -d /tmp/mut/out9/$p/stub ] && cp -r /tmp/mut/out9/$p/stub/. /verif/seeded/stubs/${p}_$n/
    for f in /tmp/mut/out9/$p/$k/*; do case "$f" in *.py|*.json|*.diff|*.txt|*.dat) cp "$f" $d/ ;; esac; done
    sed -i "s#/tmp/mut/out9/$p/stub#/verif/seeded/stubs/${p}_$n#g; s#/tmp/mut/out9/$p/$k#$d#g" $d/*.py
  done
done
