#!/venv/bin/python
"""Evaluate seeded changes (/verif/seeded/<name>/{patch.diff,demo.py,meta.json}) against the checks.

  tools/seeded.py confirm <dir>            apply patch in a scratch worktree: existing tests pass, demo fails with / passes without
  tools/seeded.py check <dir> [Cxx ...]    run the quick (or --tier thorough) checks with ESR_REPO=<patched scratch worktree>
Results are appended to <dir>/results.json.  /repo itself is never modified."""
import json, os, shutil, subprocess, sys, tempfile, time

VERIF = os.path.dirname(os.path.dirname(os.path.abspath(__file__)))
REPO = "/repo"


def worktree(patch=None):
    d = tempfile.mkdtemp(prefix="seedwt_")
    os.rmdir(d)
    subprocess.run(["git", "-C", REPO, "worktree", "add", "-q", "--detach", d, "HEAD"], check=True)
    if patch:
        p = subprocess.run(["git", "-C", d, "apply", "--whitespace=nowarn", os.path.abspath(patch)], capture_output=True, text=True)
        if p.returncode != 0:
            drop(d)
            raise SystemExit("patch does not apply: " + p.stderr)
    return d


def drop(d):
    subprocess.run(["git", "-C", REPO, "worktree", "remove", "--force", d], capture_output=True)
    shutil.rmtree(d, ignore_errors=True)


def tests(d):
    p = subprocess.run(["/venv/bin/python", "-m", "pytest", "-q", "-p", "no:cacheprovider", "tests/test_printer.py"], cwd=d,
                       env=dict(os.environ, PYTHONPATH=d), capture_output=True, text=True)
    return p.returncode == 0, p.stdout.strip().splitlines()[-1] if p.stdout.strip() else p.stderr[-200:]


def demo(dirn, wt):
    stub = os.path.join(VERIF, "seeded", "stubs", os.path.basename(dirn))                     # the agent's mpi4py stand-in, whatever path the demo guesses
    if not os.path.isdir(stub):
        stub = os.path.join(VERIF, "seeded", "stubs", os.path.basename(dirn).split("_")[0])
    p = subprocess.run(["/venv/bin/python", os.path.join(dirn, "demo.py")], cwd=dirn, env=dict(os.environ, ESR_WT=wt, PYTHONPATH=stub + os.pathsep + wt),
                       capture_output=True, text=True, timeout=900)
    return p.returncode, (p.stdout + p.stderr)[-400:]


def save(dirn, key, val):
    p = os.path.join(dirn, "results.json")
    d = json.load(open(p)) if os.path.exists(p) else {}
    d[key] = val
    json.dump(d, open(p, "w"), indent=1)


def main():
    cmd, dirn = sys.argv[1], os.path.abspath(sys.argv[2])
    patch = os.path.join(dirn, "patch.diff")
    if cmd == "confirm":
        clean = worktree()
        mut = worktree(patch)
        try:
            t_ok, t_msg = tests(mut)
            rc_clean, out_clean = demo(dirn, clean)
            rc_mut, out_mut = demo(dirn, mut)
            st = subprocess.run(["git", "-C", mut, "diff", "--stat"], capture_output=True, text=True).stdout.strip().splitlines()
        finally:
            drop(clean)
            drop(mut)
        res = {"tests_pass_with_change": t_ok, "tests": t_msg, "demo_rc_unchanged": rc_clean, "demo_rc_changed": rc_mut,
               "demo_tail_changed": out_mut, "diffstat": st[-1] if st else "", "confirmed": bool(t_ok and rc_clean == 0 and rc_mut != 0)}
        save(dirn, "confirm", res)
        print(json.dumps(res, indent=1))
        return 0 if res["confirmed"] else 1
    if cmd == "check":
        tier = "quick"
        args = sys.argv[3:]
        if "--tier" in args:
            i = args.index("--tier")
            tier = args[i + 1]
            del args[i:i + 2]
        meta = json.load(open(os.path.join(dirn, "meta.json")))
        pids = args or [meta["property"]]
        mut = worktree(patch)
        out = {}
        try:
            for pid in pids:
                t0 = time.time()
                evid = os.path.join(VERIF, "evidence", pid + ".json")
                keep = open(evid).read() if os.path.exists(evid) else None
                p = subprocess.run([os.path.join(VERIF, "check"), pid, "--tier", tier], cwd=VERIF, env=dict(os.environ, ESR_REPO=mut),
                                   capture_output=True, text=True, timeout=7200)
                if keep is not None:
                    open(evid, "w").write(keep)          # evidence files describe the unchanged tree only
                viol = [l for l in p.stdout.splitlines() if l.startswith("VIOLATION")]
                first = next((l for l in p.stdout.splitlines() if l.startswith("  ")), "")
                out[pid] = {"tier": tier, "exit": p.returncode, "violations": len(viol), "first": first.strip()[:300], "wall_s": round(time.time() - t0, 1)}
                print(pid, out[pid])
        finally:
            drop(mut)
        # replay files of seeded runs are not findings of the unchanged tree
        prev = (json.load(open(os.path.join(dirn, "results.json"))).get("checks", {}) if os.path.exists(os.path.join(dirn, "results.json")) else {})
        prev.update({"%s:%s" % (k, tier): v for k, v in out.items()})
        save(dirn, "checks", prev)
        return 0
    raise SystemExit("unknown command")


sys.exit(main())
