#!/bin/sh
# tools/import_seeded2.sh C02 ... : second round (deliverables under /tmp/mut/out2/<P>/<k>) -> /verif/seeded/<P>_<k+2>
for p in "$@"; do
  for k in 1 2 3; do
    [ -f /tmp/mut/out2/$p/$k/patch.diff ] || continue
    n=$((k+2))
    d=/verif/seeded/${p}_$n
    mkdir -p $d /verif/seeded/stubs/${p}_$n
    [ -d /tmp/mut/out2/$p/stub ] && cp -r /tmp/mut/out2/$p/stub/. /verif/seeded/stubs/${p}_$n/
    for f in /tmp/mut/out2/$p/$k/*; do case "$f" in *.py|*.json|*.diff|*.txt|*.dat) cp "$f" $d/ ;; esac; done
    sed -i "s#/tmp/mut/out2/$p/stub#/verif/seeded/stubs/${p}_$n#g; s#/tmp/mut/out2/$p/$k#$d#g" $d/*.py
  done
done
