#!/bin/sh
# tools/import_seeded.sh C07 C08 ... : copy agent deliverables from /tmp/mut/out into /verif/seeded and make demos self-contained
for p in "$@"; do
  mkdir -p /verif/seeded/stubs/$p
  [ -d /tmp/mut/out/$p/stub ] && cp -r /tmp/mut/out/$p/stub/. /verif/seeded/stubs/$p/
  for k in 1 2 3; do
    [ -f /tmp/mut/out/$p/$k/patch.diff ] || continue
    d=/verif/seeded/${p}_$k
    mkdir -p $d
    cp /tmp/mut/out/$p/$k/patch.diff /tmp/mut/out/$p/$k/demo.py /tmp/mut/out/$p/$k/meta.json $d/
    # other helper files the demo may need
    for f in /tmp/mut/out/$p/$k/*; do case "$f" in *.py|*.json|*.diff|*.txt|*.dat) cp -n "$f" $d/ ;; esac; done
    sed -i "s#/tmp/mut/out/$p/stub#/verif/seeded/stubs/$p#g; s#os.path.join(HERE, '..', 'stub')#'/verif/seeded/stubs/$p'#g; s#os.path.join(os.path.dirname(HERE), 'stub')#'/verif/seeded/stubs/$p'#g; s#/tmp/mut/out/$p/$k#$d#g" $d/*.py
  done
done
