#!/venv/bin/python
"""tools/sweep.py [--only C01,C02] [--jobs 5]: run the quick check of each seeded change's own property (seeds of one property one after
the other: they share the evidence file; properties in parallel).  Results go to seeded/<id>/results.json (tools/seeded.py)."""
import os, subprocess, sys, threading, queue, json
V = os.path.dirname(os.path.dirname(os.path.abspath(__file__)))
only = None
jobs = 5
a = sys.argv[1:]
while a:
    x = a.pop(0)
    if x == "--only":
        only = set(a.pop(0).split(","))
    elif x == "--jobs":
        jobs = int(a.pop(0))
by = {}
for d in sorted(os.listdir(os.path.join(V, "seeded"))):
    if d[0] == "C" and "_" in d and os.path.exists(os.path.join(V, "seeded", d, "patch.diff")):
        by.setdefault(d.split("_")[0], []).append(d)
q = queue.Queue()
for p in sorted(by, key=lambda p: -len(by[p]) * (3 if p in ("C13", "C14", "C15", "C16") else 1)):
    if only is None or p in only:
        q.put(p)


def work():
    while True:
        try:
            p = q.get_nowait()
        except queue.Empty:
            return
        for d in by[p]:
            r = subprocess.run(["/venv/bin/python", os.path.join(V, "tools", "seeded.py"), "check", os.path.join(V, "seeded", d)], capture_output=True, text=True)
            res = json.load(open(os.path.join(V, "seeded", d, "results.json"))).get("checks", {}).get(p + ":quick", {})
            print(d, "exit", res.get("exit"), "violations", res.get("violations"), (res.get("first") or "")[:110].replace("\n", " "), flush=True)


th = [threading.Thread(target=work) for _ in range(jobs)]
[t.start() for t in th]
[t.join() for t in th]
