#!/venv/bin/python
"""tools/seeded_table.py: markdown table 'seeded change | what was changed | detected by | run, not detected by' from seeded/<id>/{meta,results}.json"""
import json, os, re
V = os.path.dirname(os.path.dirname(os.path.abspath(__file__)))
rows = []
tot = own = anyd = 0
for d in sorted(os.listdir(os.path.join(V, "seeded")), key=lambda s: (s.split("_")[0], int(s.split("_")[1])) if re.fullmatch(r"C\d+_\d+", s) else ("Z", 0)):
    if not re.fullmatch(r"C\d+_\d+", d):
        continue
    m = json.load(open(os.path.join(V, "seeded", d, "meta.json")))
    rp = os.path.join(V, "seeded", d, "results.json")
    ch = dict((m.get("ran") or {}).get("checks", {}))
    if os.path.exists(rp):
        ch.update(json.load(open(rp)).get("checks", {}))
    det = sorted({k.split(":")[0] for k, v in ch.items() if v.get("exit") == 1})
    nod = sorted({k.split(":")[0] for k, v in ch.items() if v.get("exit") == 0} - set(det))
    tot += 1
    own += d.split("_")[0] in det
    anyd += bool(det)
    rows.append("| %s | %s | %s | %s |" % (d, m["summary"][:120].replace("|", "/").replace("\n", " "), ", ".join(det) or "-", ", ".join(nod) or "-"))
print("| seeded change | what was changed | detected by | run, not detected by |\n|---|---|---|---|")
print("\n".join(rows))
print("\n%d seeded changes, %d detected by at least one check, %d by the quick tier of their own property's check" % (tot, anyd, own))
