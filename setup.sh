#!/bin/sh
# Offline set-up: verify the tool chain and pre-parse every specification with SANY.  Fetches nothing.
cd "$(dirname "$0")" || exit 1
command -v java >/dev/null || { echo "java missing"; exit 1; }
command -v tlapm >/dev/null || { echo "tlapm missing (proof modules spec/*Proofs.tla)"; exit 1; }
[ -x /venv/bin/python ] || { echo "/venv/bin/python missing"; exit 1; }
/venv/bin/python -c "import sympy, numpy, scipy, numdifftools, pandas, mpmath" || exit 1
chmod +x check
/venv/bin/python - <<'PY' || exit 1
import sys, os
sys.path.insert(0, os.getcwd())
from harness import tlc
bad = 0
for f in sorted(os.listdir("spec")):
    if f.endswith(".tla"):
        ok, out = tlc.sany(f[:-4])
        print(("ok   " if ok else "FAIL ") + f)
        if not ok:
            print(out[-1500:]); bad += 1
sys.exit(1 if bad else 0)
PY
