"""Running generation and reading a function library."""
import os, json
from harness import coord, scratch, libio, bases


class StageFailed(Exception):
    def __init__(self, res):
        self.res = res
        Exception.__init__(self, "%s: %s" % (res["status"], res["detail"]))


def generate(s, runname, n, basis=None, P=1, mode="free", policy=None, timeout=1800, **kw):
    """Run duplicate_checker.main in P rank processes of the stand-in.  basis!=None uses the verif_* hook."""
    args = (runname, n, basis, kw.get("seed", 1234), kw.get("search_tmax", 60), kw.get("expand_tmax", 1))
    res = coord.run_ranks(P, "harness.targets:gen", args, s, mode=mode, policy=policy, timeout=timeout,
                          env_extra=kw.get("env"))
    return res


class Library:
    def __init__(self, s, runname, n):
        d = scratch.libdir(s, runname, n)
        self.dir, self.n, self.runname = d, n, runname
        p = lambda f: os.path.join(d, f % n)
        self.orig_trees = libio.read_trees(p("orig_trees_%d.txt"))
        self.extra_trees = libio.read_trees(p("extra_trees_%d.txt"))
        self.trees = libio.read_trees(p("trees_%d.txt"))
        self.all_eq = libio.read_lines(p("all_equations_%d.txt"))
        self.uniq = libio.read_lines(p("unique_equations_%d.txt"))
        self.matches = [int(float(x)) for x in open(p("matches_%d.txt")).read().split()]
        self.inv_subs = libio.read_subs(p("inv_subs_%d.txt"))
        self.aifeyn = libio.read_floats(p("aifeyn_%d.txt"))

    def files(self):
        return sorted(os.listdir(self.dir))
