"""The six shipped operator bases (duplicate_checker.main) and helper bases."""
import itertools, json

SHIPPED = {
    "keep_duplicates": [["x", "a"], ["square", "exp", "inv", "sqrt_abs", "log_abs"], ["+", "*", "-", "/", "pow"]],
    "core_maths": [["x", "a"], ["inv"], ["+", "*", "-", "/", "pow"]],
    "ext_maths": [["x", "a"], ["inv", "sqrt_abs", "square", "exp"], ["+", "*", "-", "/", "pow"]],
    "osc_maths": [["x", "a"], ["inv", "sin"], ["+", "*", "-", "/", "pow"]],
    "base10_maths": [["x", "a"], ["tenexp", "inv", "log10_abs"], ["+", "*", "-", "/", "pow"]],
    "base_e_maths": [["x", "a"], ["inv", "exp", "log_abs"], ["+", "*", "-", "/", "pow"]],
}


def sub_bases():
    """27 sub-bases of a 2+2+2 alphabet (every non-empty subset per arity class)."""
    def ne(xs):
        return [list(c) for r in range(1, len(xs) + 1) for c in itertools.combinations(xs, r)]
    out = []
    for b0 in ne(["x", "a"]):
        for b1 in ne(["inv", "exp"]):
            for b2 in ne(["+", "pow"]):
                out.append([b0, b1, b2])
    return out


def arith_bases():
    """purely arithmetic bases: no unary operator, every label a single character"""
    return [[["x", "a"], [], ["+", "*"]], [["a"], [], ["/"]], [["x", "a"], [], ["+", "-", "*", "/"]], [["x"], [], ["-"]]]


USER_STYLE = {   # C11: binary operators include + and *, unary subsets incl. cube, any of - / pow
    "verif_cube": [["x", "a"], ["cube", "inv", "exp"], ["+", "*", "pow"]],
    "verif_nosub": [["x", "a"], ["inv", "square", "log_abs", "exp"], ["+", "*"]],
    "verif_sqrt": [["x", "a"], ["sqrt_abs", "square", "cube"], ["+", "*", "-", "/"]],
    "verif_div": [["x", "a"], ["inv", "log_abs", "exp", "sqrt_abs"], ["+", "*", "/", "pow"]],
    "verif_ax": [["a", "x"], ["inv", "exp"], ["+", "*", "-"]],        # nullary symbols listed the other way round
}


def tla_seq(xs):
    return "<<" + ", ".join(json.dumps(x) for x in xs) + ">>"


def tla_consts(basis, n, renumber=True):
    return {"N": str(n), "B0": tla_seq(basis[0]), "B1": tla_seq(basis[1]), "B2": tla_seq(basis[2]),
            "Renumber": "TRUE" if renumber else "FALSE"}


def name_of(basis):
    for k, v in SHIPPED.items():
        if v == basis:
            return k
    return "sub[" + "|".join(",".join(c) for c in basis) + "]"
