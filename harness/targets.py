"""Functions executed inside rank processes (and in-process with P=1)."""
import json, os, sys


def gen(runname, compl, basis=None, seed=1234, search_tmax=60, expand_tmax=1):
    if basis is not None:
        os.environ["ESR_VERIF"] = "1"
        os.environ["ESR_VERIF_BASIS"] = json.dumps(basis)
    import esr.generation.duplicate_checker as dc
    rec = os.environ.get("ESR_VERIF_ROUNDS")
    if rec:
        # record the full function list at the start of every deduplication round (and after the last one): do_sympy and
        # duplicate_checker.main look utils.get_unique_indexes up at call time, so wrapping the module attribute observes them
        import esr.generation.utils as U
        from mpi4py import MPI
        orig = U.get_unique_indexes
        if MPI.COMM_WORLD.Get_rank() == 0 and not getattr(orig, "_verif", False):
            def wrapped(L):
                with open(rec, "a") as f:
                    f.write(json.dumps(list(L)) + "\n")
                return orig(L)
            wrapped._verif = True
            U.get_unique_indexes = wrapped
    dc.main(runname, compl, search_tmax=search_tmax, expand_tmax=expand_tmax, seed=seed)


def gen_only(basis, compl, outdir):
    """generate_equations without the dedup stage (C01/C08/C11)."""
    import esr.generation.generator as g
    from mpi4py import MPI
    if MPI.COMM_WORLD.Get_rank() == 0:
        os.makedirs(outdir, exist_ok=True)
    MPI.COMM_WORLD.Barrier()
    g.generate_equations(compl, basis, outdir)


def make_like(kind, data_file, run_name, data_dir, fn_set):
    import esr.fitting.likelihood as L
    cls = {"gauss": L.GaussLikelihood, "poisson": L.PoissonLikelihood, "mse": L.MSE}[kind]
    return cls(data_file, run_name, data_dir=data_dir, fn_set=fn_set)


def fit_stages(kind, data_file, run_name, data_dir, fn_set, compl, stages, seed=0, opts=None):
    """Fit / Fisher / Match / Combine on an existing library."""
    import numpy as np
    opts = opts or {}
    np.random.seed(seed)
    like = make_like(kind, data_file, run_name, data_dir, fn_set)
    if "fit" in stages:
        import esr.fitting.test_all as ta
        ta.main(compl, like, **opts.get("fit", {}))
    if "fisher" in stages:
        import esr.fitting.test_all_Fisher as tf
        tf.main(compl, like, **opts.get("fisher", {}))
    if "match" in stages:
        import esr.fitting.match as m
        m.main(compl, like, **opts.get("match", {}))
    if "combine" in stages:
        import esr.fitting.combine_DL as c
        c.main(compl, like, **opts.get("combine", {}))


def construct_like(kind, data_file, run_name, data_dir, fn_set):
    from mpi4py import MPI
    make_like(kind, data_file, run_name, data_dir, fn_set)
    MPI.COMM_WORLD.Barrier()


def fit_stages_det(kind, data_file, run_name, data_dir, fn_set, compl, stages, opts=None):
    """As fit_stages, but the optimiser's random starts are a function of the function string only
    (re-seeded per function), so that stage outputs do not depend on how functions are split among ranks."""
    import zlib
    import numpy as np
    import esr.fitting.test_all as ta
    orig = ta.optimise_fun

    def seeded(fcn_i, *a, **k):
        np.random.seed(zlib.crc32(fcn_i.strip().encode()) & 0x7fffffff)
        return orig(fcn_i, *a, **k)
    ta.optimise_fun = seeded
    fit_stages(kind, data_file, run_name, data_dir, fn_set, compl, stages, seed=0, opts=opts)


# ----------------------------------------------------------------------------- C06: combine_DL on synthetic tables
def _tok(v):
    return {1000: "inf", -1: "nan"}.get(v, "%.7e" % v)


def combine_batch(tables_path, out_path, workdir):
    """For every table (list of variants {idx,nll,plen,tlen}; U uniques) write the stage's input files,
    run the real combine_DL.main on all ranks, collect final_<n>.dat.  Results written by rank 0."""
    import types, shutil, io, contextlib
    from mpi4py import MPI
    comm = MPI.COMM_WORLD
    rank = comm.Get_rank()
    import esr.fitting.combine_DL as cdl
    with open(tables_path) as f:
        tables = json.load(f)
    n = 3
    like = types.SimpleNamespace(fn_dir=os.path.join(workdir, "lib"), base_out_dir=os.path.join(workdir, "out"),
                                 out_dir=os.path.join(workdir, "out", "o"), temp_dir=os.path.join(workdir, "out", "t"),
                                 is_mse=False, fnprior_prefix="aifeyn_", combineDL_prefix="combine_DL_", final_prefix="final_")
    results = []
    def write_inputs(t, fresh):
        if fresh:
            shutil.rmtree(workdir, ignore_errors=True)
            os.makedirs(os.path.join(like.fn_dir, "compl_%d" % n))
            os.makedirs(like.out_dir)
            os.makedirs(like.temp_dir)
        d = os.path.join(like.fn_dir, "compl_%d" % n)
        with open(os.path.join(d, "unique_equations_%d.txt" % n), "w") as f:
            f.write("".join("u%d*x\n" % u for u in range(t["U"])))
        with open(os.path.join(d, "all_equations_%d.txt" % n), "w") as f:
            f.write("".join("v%d+x\n" % (k + 1) for k in range(len(t["tab"]))))
        with open(os.path.join(d, "aifeyn_%d.txt" % n), "w") as f:
            f.write("".join("%s\n" % _tok(v["tlen"]) for v in t["tab"]))
        with open(os.path.join(like.out_dir, "codelen_matches_comp%d.dat" % n), "w") as f:
            for k, v in enumerate(t["tab"]):
                nll = v["nll"] + t.get("off", 0) if v["nll"] not in (1000, -1) else v["nll"]     # off: common shift of every finite likelihood
                f.write(" ".join(["%.7e" % nll if nll not in (1000, -1) else _tok(nll), _tok(v["plen"]), "%.7e" % v["idx"], "%.7e" % (k + 1), "%.7e" % 0, "%.7e" % 0, "%.7e" % 0]) + "\n")

    for t in tables:
        err = None
        if t.get("pre"):
            # the stage was run before in the same output directory on another table (a repeated fit under the same run name)
            if rank == 0:
                write_inputs({"U": t["U"], "tab": t["pre"]}, True)
            comm.Barrier()
            try:
                with contextlib.redirect_stdout(io.StringIO()):
                    cdl.main(n, like)
            except Exception as e:
                err = "earlier run: %s: %s" % (type(e).__name__, e)
            comm.Barrier()
        if rank == 0:
            write_inputs(t, not t.get("pre"))
        comm.Barrier()
        try:
            with contextlib.redirect_stdout(io.StringIO()):
                cdl.main(n, like)
        except Exception as e:                       # the stage must not raise on any table
            err = err or "%s: %s" % (type(e).__name__, e)
        errs = comm.gather(err, root=0)
        if rank == 0:
            p = os.path.join(like.out_dir, "final_%d.dat" % n)
            txt = open(p).read() if os.path.exists(p) else None
            results.append({"id": t["id"], "final": txt, "errors": [e for e in errs if e]})
        comm.Barrier()
    if rank == 0:
        with open(out_path, "w") as f:
            json.dump(results, f)


# ----------------------------------------------------------------------------- C07: snapping routine on exact linear models
def _snap_model(k, scale=1.0):
    import numpy as np
    x = np.linspace(0.5, 2.5, 12) * scale          # scale << 1: badly scaled abscissa (default Hessian step too small, fallback steps needed)
    cols = {1: [x], 2: [x, np.ones_like(x)], 3: [x, np.ones_like(x), x * x]}[k]
    fstr = {1: "a0*x", 2: "a0*x + a1", 3: "a0*x + a1 + a2*x**2"}[k]
    return x, np.array(cols).T, fstr


def snap_batch(cases_path, out_path, workdir):
    """cases: [{id,k,small,tie,curv,bad}] -> observed return of test_all_Fisher.convert_params on an exactly
    solvable linear Gaussian model realising the case (projection P5)."""
    import io, contextlib, math
    import numpy as np
    import esr.fitting.test_all_Fisher as tf
    cases = json.load(open(cases_path))
    os.makedirs(workdir, exist_ok=True)
    sigma = 0.5
    out = []
    likes = {}
    for c in cases:
        k = c["k"]
        x, Phi, fstr = _snap_model(k, c.get("scale", 1.0))
        I = Phi.T @ Phi / sigma ** 2
        thr = np.sqrt(12.0 / np.diag(I))
        theta = np.zeros(k)
        for i in range(k):
            sgn = -1.0 if i % 2 else 1.0
            if (i + 1) in c["tie"]:
                theta[i] = sgn * thr[i]
            elif (i + 1) in c["small"]:
                theta[i] = sgn * 0.4 * thr[i]
            else:
                theta[i] = sgn * 3.0 * thr[i]
        y = Phi @ theta
        dd = os.path.join(workdir, "k%d_%d" % (k, c["id"]))
        os.makedirs(dd, exist_ok=True)
        np.savetxt(os.path.join(dd, "d.txt"), np.transpose([x, y, np.full(len(x), sigma)]))
        base = make_like("gauss", "d.txt", "r", dd, "core_maths")
        bad = {frozenset(z) for z in c["bad"]}
        curv = c["curv"]

        class Wrap:
            is_mse = False

            def negloglike(self, a, eq_numpy, **kw):
                a = np.atleast_1d(np.asarray(a, dtype=float))
                zeros = frozenset(i + 1 for i in range(k) if a[i] == 0)
                if zeros in bad:
                    return np.inf
                v = base.negloglike(a, eq_numpy, **kw)
                for i in range(k):
                    if curv[i] == "nonpos":
                        v = v - 2.0 * I[i, i] * (a[i] - theta[i]) ** 2
                    elif curv[i] == "nonfinite" and a[i] != theta[i]:
                        return np.inf
                return v

            def run_sympify(self, f, **kw):
                return base.run_sympify(f, **kw)
        w = Wrap()
        fcn, eq, integ = w.run_sympify(fstr)
        import sympy
        from esr.fitting.sympy_symbols import x as sx
        syms = [sx] + [sympy.Symbol("a%d" % j, real=True) for j in range(k)]
        eqn = sympy.lambdify(syms, eq, modules=["numpy"])
        nll0 = w.negloglike(theta, eqn)
        rec = {"id": c["id"]}
        try:
            with contextlib.redirect_stdout(io.StringIO()):
                params, nll, deriv, codelen = tf.convert_params(fcn, eq, integ, theta.copy(), w, nll0, max_param=4)
            params = np.asarray(params, dtype=float)
            zeros = [i + 1 for i in range(k) if params[i] == 0.0]
            kept = [i for i in range(k) if params[i] != 0.0]
            codelen = float(codelen)
            rec["len"] = "nan" if math.isnan(codelen) else ("posinf" if math.isinf(codelen) and codelen > 0 else "finite" if math.isfinite(codelen) else "neginf")
            expect = -(len(kept) / 2.0) * math.log(3.0) + sum(0.5 * math.log(I[i, i]) + math.log(abs(theta[i])) for i in kept)
            rec["formula"] = bool(math.isfinite(codelen) and abs(codelen - expect) <= 1e-5 * max(1.0, abs(expect)))
            rec["codelen"], rec["expect"] = codelen, expect
            # reported parameters: zeros where dropped, the ML values elsewhere (when the routine reports them at all)
            rec["zeros"] = zeros
            rep = np.array([0.0 if (i + 1) in zeros else theta[i] for i in range(k)])
            at_rep = w.negloglike(rep, eqn)
            rec["nllok"] = bool((math.isinf(at_rep) and math.isinf(nll)) or abs(float(nll) - at_rep) <= 1e-9 * max(1.0, abs(at_rep)))
            rec["params_are_ml_or_zero"] = bool(all(params[i] == 0.0 or abs(params[i] - theta[i]) <= 1e-12 * abs(theta[i]) for i in range(k)))
            rec["nll"], rec["nll_at_reported"] = float(nll), float(at_rep)
        except Exception as e:
            rec["raised"] = "%s: %s" % (type(e).__name__, e)
        out.append(rec)
    json.dump(out, open(out_path, "w"))


def fisher_main_batch(cases_path, out_path, workdir):
    """cases: [{id,k,small,tie,tmpl}] -> the row test_all_Fisher.main WRITES for the case's function (codelen_comp<n>_deriv.dat) and the
    Hessian row (derivs_comp<n>.dat), on an exactly solvable model (data = model at theta, so the Hessian is J^T J / sigma^2 exactly).
    tmpl 'lin': a0*x (+ a1 (+ a2*x**2));  'pole': a1*x + 1/a0 (infinite likelihood whenever a0 = 0)."""
    import io, contextlib, math, shutil
    import numpy as np
    import esr.fitting.test_all_Fisher as tf
    cases = json.load(open(cases_path))
    n = 3
    out = []
    for c in cases:
        k, sigma = c["k"], 0.5
        x = np.linspace(0.5, 2.5, 12)
        sgn = lambda i: -1.0 if i % 2 else 1.0
        mag = lambda i, thr: sgn(i) * thr * (1.0 if (i + 1) in c["tie"] else 0.4 if (i + 1) in c["small"] else 3.0)
        if c["tmpl"] == "pole":
            fstr = "a1*x + 1/a0"
            # I_00 = N / (a0^4 sigma^2): |a0| sqrt(I_00 / 12) < 1  <=>  |a0| > sqrt(N/12) / sigma   (a LARGE a0 is the small one)
            t0 = math.sqrt(len(x) / 12.0) / sigma
            a0v = sgn(0) * t0 / (1.0 if 1 in c["tie"] else 0.4 if 1 in c["small"] else 3.0)
            a1v = mag(1, math.sqrt(12.0 * sigma ** 2 / float(np.sum(x * x))))
            theta = np.array([a0v, a1v])
            J = np.array([np.full(len(x), -1.0 / a0v ** 2), x]).T
            model = lambda p: p[1] * x + (1.0 / p[0] if p[0] != 0 else np.inf)
        else:
            cols = {1: [x], 2: [x, np.ones_like(x)], 3: [x, np.ones_like(x), x * x]}[k]
            fstr = {1: "a0*x", 2: "a0*x + a1", 3: "a0*x + a1 + a2*x**2"}[k]
            J = np.array(cols).T
            thr = np.sqrt(12.0 * sigma ** 2 / np.sum(J * J, axis=0))
            theta = np.array([mag(i, thr[i]) for i in range(k)])
            model = lambda p: J @ np.asarray(p[:k])
        I = J.T @ J / sigma ** 2
        y = model(theta)
        nll_at = lambda p: float(np.sum(0.5 * (model(p) - y) ** 2 / sigma ** 2 + 0.5 * math.log(2 * math.pi) + math.log(sigma))) if np.all(np.isfinite(model(p))) else float("inf")
        dd = os.path.join(workdir, "c%d" % c["id"])
        shutil.rmtree(dd, ignore_errors=True)
        os.makedirs(dd)
        np.savetxt(os.path.join(dd, "d.txt"), np.transpose([x, y, np.full(len(x), sigma)]))
        like = make_like("gauss", "d.txt", "r", dd, "core_maths")
        like.fn_dir = os.path.join(dd, "lib")
        os.makedirs(os.path.join(like.fn_dir, "compl_%d" % n))
        with open(os.path.join(like.fn_dir, "compl_%d" % n, "unique_equations_%d.txt" % n), "w") as f:
            f.write(fstr + "\nx\n")
        for d_ in (like.out_dir, like.temp_dir):
            os.makedirs(d_, exist_ok=True)
        nll_x = float(np.sum(0.5 * (x - y) ** 2 / sigma ** 2 + 0.5 * math.log(2 * math.pi) + math.log(sigma)))
        with open(os.path.join(like.out_dir, "negloglike_comp%d.dat" % n), "w") as f:
            f.write(" ".join("%.12e" % v for v in [nll_at(theta)] + list(theta) + [0.0] * (4 - k)) + "\n")
            f.write(" ".join("%.12e" % v for v in [nll_x, 0.0, 0.0, 0.0, 0.0]) + "\n")
        rec = {"id": c["id"]}
        try:
            with contextlib.redirect_stdout(io.StringIO()):
                tf.main(n, like, tmax=60)
            rows = np.atleast_2d(np.genfromtxt(os.path.join(like.out_dir, "codelen_comp%d_deriv.dat" % n)))
            der = np.atleast_2d(np.genfromtxt(os.path.join(like.out_dir, "derivs_comp%d.dat" % n)))
            rec["nrows"] = int(rows.shape[0])
            codelen, nll, params = float(rows[0, 0]), float(rows[0, 1]), rows[0, 2:2 + k]
            zeros = [i + 1 for i in range(k) if params[i] == 0.0]
            kept = [i for i in range(k) if params[i] != 0.0]
            rec["len"] = "nan" if math.isnan(codelen) else ("posinf" if math.isinf(codelen) and codelen > 0 else "finite" if math.isfinite(codelen) else "neginf")
            expect = -(len(kept) / 2.0) * math.log(3.0) + sum(0.5 * math.log(I[i, i]) + math.log(abs(theta[i])) for i in kept)
            rec["formula"] = bool(math.isfinite(codelen) and abs(codelen - expect) <= 1e-5 * max(1.0, abs(expect)))
            rec["codelen"], rec["expect"], rec["zeros"] = codelen, expect, zeros
            rep = [0.0 if (i + 1) in zeros else theta[i] for i in range(k)]
            at_rep = nll_at(rep)
            rec["nllok"] = bool((math.isinf(at_rep) and math.isinf(nll)) or abs(nll - at_rep) <= 1e-6 * max(1.0, abs(at_rep)))
            rec["params_are_ml_or_zero"] = bool(all(params[i] == 0.0 or abs(params[i] - theta[i]) <= 1e-6 * abs(theta[i]) for i in range(k)) and
                                                 all(v == 0.0 for v in rows[0, 2 + k:]))
            rec["nll"], rec["nll_at_reported"] = nll, at_rep
            # the Hessian row: upper triangle, row-major, of the observed Fisher matrix (a snapped parameter's entries are not fixed by the property)
            tri = [I[i, j] for i in range(k) for j in range(i, k)]
            full = [(i, j) for i in range(4) for j in range(i, 4)]
            got = {ij: der[0, q] for q, ij in enumerate(full)} if der.shape[1] == len(full) else {}
            rec["hessian_ok"] = bool(got and all(abs(got[(i, j)] - I[i, j]) <= 1e-4 * math.sqrt(I[i, i] * I[j, j]) for i in kept for j in kept if j >= i))
            # the parameter-free function of the same library: no parameters, so no parameter code (0) and its own likelihood
            rec["free_row_ok"] = bool(rows.shape[0] == 2 and rows[1, 0] == 0.0 and abs(rows[1, 1] - nll_x) <= 1e-6 * max(1.0, abs(nll_x)) and np.all(rows[1, 2:] == 0.0))
        except Exception as e:
            rec["raised"] = "%s: %s" % (type(e).__name__, e)
        out.append(rec)
        shutil.rmtree(dd, ignore_errors=True)
    json.dump(out, open(out_path, "w"))


# ----------------------------------------------------------------------------- C17: substitution file round trip under P ranks
def load_subs_roundtrip(fname, max_param, out_path):
    """load_subs on all ranks; rank 0 stores a projection of what was loaded (independent of sympy objects' identity)."""
    import numpy as np, sympy
    from mpi4py import MPI
    import esr.generation.simplifier as simp
    res = {}
    for use_sympy in (True, False):
        subs = simp.load_subs(fname, max_param, use_sympy=use_sympy)
        if MPI.COMM_WORLD.Get_rank() == 0:
            rows, forms, keysyms = [], [], []
            for row in subs:
                r = []
                keysyms.append([[sorted(str(v) for v in getattr(k, "free_symbols", [])) for k in el] if isinstance(el, dict) else None for el in row])
                forms.append(["nan" if isinstance(el, float) else "dict" if isinstance(el, dict) else "str" if isinstance(el, str) else type(el).__name__ for el in row])
                for el in row:
                    if isinstance(el, float):
                        r.append("nan" if np.isnan(el) else repr(el))
                    elif isinstance(el, dict) and use_sympy:
                        # what the map DOES to the parameters the fitting code uses (real symbols a0..., as simplifier.convert_params builds them):
                        # a loaded key that is not that symbol substitutes nothing
                        real = {str(k): sympy.Symbol(str(k), real=True) for k in el}
                        r.append({nm: str(sym.subs(el, simultaneous=True)) for nm, sym in real.items()})
                    elif isinstance(el, dict):
                        r.append({str(k): str(v) for k, v in el.items()})
                    else:
                        r.append(str(el))
                rows.append(r)
            res["sympy" if use_sympy else "str"] = rows
            res[("sympy" if use_sympy else "str") + "_form"] = forms
            res[("sympy" if use_sympy else "str") + "_keysyms"] = keysyms
    if MPI.COMM_WORLD.Get_rank() == 0:
        with open(out_path, "w") as f:
            json.dump(res, f)
    MPI.COMM_WORLD.Barrier()


# ----------------------------------------------------------------------------- C05: match.main on a synthetic library
def match_batch(spec_path, out_path):
    """spec: {fn_set, n, data_dir, data_file}: the library files and the unique functions' stage outputs were written
    by the harness; run the real match.main on all ranks; rank 0 copies codelen_matches to out_path."""
    import io, contextlib, shutil
    from mpi4py import MPI
    sp = json.load(open(spec_path))
    like = make_like("gauss", sp["data_file"], "r", sp["data_dir"], sp["fn_set"])
    import esr.fitting.match as m
    buf = io.StringIO()
    with contextlib.redirect_stdout(buf):
        m.main(sp["n"], like, tmax=120)
    if MPI.COMM_WORLD.Get_rank() == 0:
        shutil.copy(os.path.join(like.out_dir, "codelen_matches_comp%d.dat" % sp["n"]), out_path)
        with open(out_path + ".log", "w") as f:
            f.write(buf.getvalue()[-20000:])
    MPI.COMM_WORLD.Barrier()


class _StopBeforeDedup(Exception):
    pass


def gen_strings(runname, compl, basis=None):
    """duplicate_checker.main itself, stopped where it would enter the deduplication rounds (simplifier.do_sympy, a module attribute
    looked up at call time, is replaced by a function that raises): trees_n, aifeyn_n and all_equations_n are then written by the
    real code, in the library directory, at complexities where the rounds take hours.  The final quote-stripping sed of main has
    not run: the files still carry pprint's quotes (harness/libio strips them)."""
    if basis is not None:
        os.environ["ESR_VERIF"] = "1"
        os.environ["ESR_VERIF_BASIS"] = json.dumps(basis)
    import esr.generation.duplicate_checker as dc
    import esr.generation.simplifier as simplifier

    def stop(*a, **k):
        raise _StopBeforeDedup()
    simplifier.do_sympy = stop
    try:
        dc.main(runname, compl)
    except _StopBeforeDedup:
        pass


# ----------------------------------------------------------------------------- C14: generation-stage concatenation (make_changes) on P real ranks
def make_changes_batch(ns, out_path):
    """for every N: every rank rewrites some functions of ITS slice (utils.split_idx, as sympy_simplify slices), the real
    simplifier.make_changes merges the ranks' changes; every rank must end with the same, correctly placed lists"""
    from mpi4py import MPI
    import esr.generation.simplifier as simp
    import esr.generation.utils as utils
    comm = MPI.COMM_WORLD
    rank, size = comm.Get_rank(), comm.Get_size()
    bad = []
    for N in ns:
        all_fun = ["f%d" % i for i in range(N)]
        all_sym = ["s%d" % i for i in range(N)]
        all_inv = [None] * N
        changed = lambda i: (i * 7 + N) % 3 != 1
        idx = utils.split_idx(N, rank, size)
        if len(idx) == 0:
            lo, hi = N, N
        else:
            lo, hi = int(idx[0]), int(idx[-1]) + 1
        str_fun, sym_fun, inv_fun = all_fun[lo:hi], all_sym[lo:hi], all_inv[lo:hi]
        for k, i in enumerate(range(lo, hi)):
            if changed(i):
                str_fun[k], sym_fun[k], inv_fun[k] = "f%d'" % i, "s%d'" % i, ["g%d" % i]
        try:
            f, sy, iv = simp.make_changes(all_fun, all_sym, all_inv, str_fun, sym_fun, inv_fun)
            exp_f = ["f%d'" % i if changed(i) else "f%d" % i for i in range(N)]
            exp_i = [["g%d" % i] if changed(i) else None for i in range(N)]
            err = None if (list(f) == exp_f and list(iv) == exp_i) else "rank %d: functions %s maps %s" % (rank, list(f)[:8], list(iv)[:8])
        except Exception as e:
            err = "rank %d: %s: %s" % (rank, type(e).__name__, e)
            # keep the ranks in step: the others are inside make_changes' collectives; nothing sensible can follow
            raise
        errs = comm.gather(err, root=0)
        if rank == 0:
            es = [e for e in errs if e]
            if es:
                bad.append({"N": N, "P": size, "errors": es[:3]})
    if rank == 0:
        with open(out_path, "w") as fh:
            json.dump(bad, fh)
    comm.Barrier()


def startup_stage(kind, data_file, run_name, data_dir, fn_set, compl):
    """what every fitting stage does first: construct the likelihood, then get_functions (directories, barrier)"""
    import io, contextlib
    from mpi4py import MPI
    like = make_like(kind, data_file, run_name, data_dir, fn_set)
    import esr.fitting.test_all as ta
    with contextlib.redirect_stdout(io.StringIO()):
        ta.get_functions(compl, like)
    MPI.COMM_WORLD.Barrier()
