"""Functions executed inside rank processes (and in-process with P=1)."""
import json, os, sys


def gen(runname, compl, basis=None, seed=1234, search_tmax=60, expand_tmax=1):
    if basis is not None:
        os.environ["ESR_VERIF"] = "1"
        os.environ["ESR_VERIF_BASIS"] = json.dumps(basis)
    import esr.generation.duplicate_checker as dc
    dc.main(runname, compl, search_tmax=search_tmax, expand_tmax=expand_tmax, seed=seed)


def gen_only(basis, compl, outdir):
    """generate_equations without the dedup stage (C01/C08/C11)."""
    import esr.generation.generator as g
    from mpi4py import MPI
    if MPI.COMM_WORLD.Get_rank() == 0:
        os.makedirs(outdir, exist_ok=True)
    MPI.COMM_WORLD.Barrier()
    g.generate_equations(compl, basis, outdir)


def make_like(kind, data_file, run_name, data_dir, fn_set):
    import esr.fitting.likelihood as L
    cls = {"gauss": L.GaussLikelihood, "poisson": L.PoissonLikelihood, "mse": L.MSE}[kind]
    return cls(data_file, run_name, data_dir=data_dir, fn_set=fn_set)


def fit_stages(kind, data_file, run_name, data_dir, fn_set, compl, stages, seed=0, opts=None):
    """Fit / Fisher / Match / Combine on an existing library."""
    import numpy as np
    opts = opts or {}
    np.random.seed(seed)
    like = make_like(kind, data_file, run_name, data_dir, fn_set)
    if "fit" in stages:
        import esr.fitting.test_all as ta
        ta.main(compl, like, **opts.get("fit", {}))
    if "fisher" in stages:
        import esr.fitting.test_all_Fisher as tf
        tf.main(compl, like, **opts.get("fisher", {}))
    if "match" in stages:
        import esr.fitting.match as m
        m.main(compl, like, **opts.get("match", {}))
    if "combine" in stages:
        import esr.fitting.combine_DL as c
        c.main(compl, like, **opts.get("combine", {}))


def construct_like(kind, data_file, run_name, data_dir, fn_set):
    from mpi4py import MPI
    make_like(kind, data_file, run_name, data_dir, fn_set)
    MPI.COMM_WORLD.Barrier()


def fit_stages_det(kind, data_file, run_name, data_dir, fn_set, compl, stages, opts=None):
    """As fit_stages, but the optimiser's random starts are a function of the function string only
    (re-seeded per function), so that stage outputs do not depend on how functions are split among ranks."""
    import zlib
    import numpy as np
    import esr.fitting.test_all as ta
    orig = ta.optimise_fun

    def seeded(fcn_i, *a, **k):
        np.random.seed(zlib.crc32(fcn_i.strip().encode()) & 0x7fffffff)
        return orig(fcn_i, *a, **k)
    ta.optimise_fun = seeded
    fit_stages(kind, data_file, run_name, data_dir, fn_set, compl, stages, seed=0, opts=opts)
