"""Projection P5 (DESIGN.md 4.5): closed-form weighted least squares for trees that are linear in their
parameters (the spec's LinClass selects them), giving the reference -log L, the ML parameters, the exact
Hessian under Gaussian noise, and from those the independent description length."""
import math
import numpy as np
from harness import p1, libproj


class NotLinear(Exception):
    pass


def design(labels, x, k):
    """f(x; th) = phi0(x) + sum_j th_j phi_j(x) by the independent tree evaluator; checked numerically"""
    def ev(th):
        a = [np.full_like(x, th[j] if j < len(th) else 0.0) for j in range(4)]
        v, good = p1.tree_values(labels, x=x, a=a)
        if not good.all():
            raise NotLinear("tree not finite on the data")
        return v
    zero = [0.0] * k
    phi0 = ev(zero)
    Phi = np.array([ev([1.0 if i == j else 0.0 for i in range(k)]) - phi0 for j in range(k)]).T if k else np.zeros((len(x), 0))
    for th in ([1.7, -0.6, 2.3, 0.4], [-0.9, 1.1, -2.2, 3.0]):
        if k and not np.allclose(ev(th[:k]), phi0 + Phi @ np.array(th[:k]), rtol=1e-9, atol=1e-9):
            raise NotLinear("not affine in the parameters")
    return phi0, Phi


def gauss_nll(f, y, sig):
    return float(np.sum(0.5 * (f - y) ** 2 / sig ** 2 + 0.5 * np.log(2 * np.pi) + np.log(sig)))


def fit(labels, x, y, sig):
    """-> dict(nll, theta, I (exact Hessian), phi0, Phi) ; raises NotLinear if the design is rank deficient"""
    k = len({l for l in labels if l.startswith("a") and l[1:].isdigit()})
    phi0, Phi = design(labels, x, k)
    if k == 0:
        return {"k": 0, "nll": gauss_nll(phi0, y, sig), "theta": np.zeros(0), "I": np.zeros((0, 0)), "phi0": phi0, "Phi": Phi}
    W = 1.0 / sig ** 2
    I = Phi.T @ (Phi * W[:, None])
    if np.linalg.matrix_rank(I, tol=1e-9 * max(1.0, np.abs(I).max())) < k:
        raise NotLinear("degenerate parameters (singular Fisher matrix)")
    theta = np.linalg.solve(I, Phi.T @ ((y - phi0) * W))
    return {"k": k, "nll": gauss_nll(phi0 + Phi @ theta, y, sig), "theta": theta, "I": I, "phi0": phi0, "Phi": Phi}


def codelen(theta, Idiag, kept):
    return -(len(kept) / 2.0) * math.log(3.0) + sum(0.5 * math.log(Idiag[i]) + math.log(abs(theta[i])) for i in kept)


def description_lengths(labels, x, y, sig, tree_code, margin=0.02):
    """independent DL of a linear tree: -log L at the (snapped) ML point + parameter code + tree code.
    Returns (lo, hi, info): parameters within `margin` of the snapping threshold may fall on either side, so the
    independent value is an interval [lo, hi] over those choices."""
    ft = fit(labels, x, y, sig)
    k, th, I = ft["k"], ft["theta"], ft["I"]
    if k == 0:
        return ft["nll"] + tree_code, ft["nll"] + tree_code, {"nll": ft["nll"], "k": 0}
    steps = np.abs(th) * np.sqrt(np.diag(I) / 12.0)
    sure = [i for i in range(k) if steps[i] < 1 - margin]
    maybe = [i for i in range(k) if 1 - margin <= steps[i] <= 1 + margin]
    vals = []
    import itertools
    for r in range(len(maybe) + 1):
        for extra in itertools.combinations(maybe, r):
            drop = set(sure) | set(extra)
            kept = [i for i in range(k) if i not in drop]
            t2 = np.array([0.0 if i in drop else th[i] for i in range(k)])
            nll = gauss_nll(ft["phi0"] + ft["Phi"] @ t2, y, sig)
            vals.append(nll + (codelen(th, np.diag(I), kept) if kept else 0.0) + tree_code)
    return min(vals), max(vals), {"nll": ft["nll"], "theta": th.tolist(), "Idiag": np.diag(I).tolist(), "steps": steps.tolist(), "k": k}


def local_fit(labels, x, y, sig, theta0):
    """Independent local maximum-likelihood fit of ANY tree from a starting point (used for planted non-linear truths:
    with small noise the optimum next to the planted parameters is the ML point).  Returns dict(nll, theta, Idiag, ok)."""
    from scipy.optimize import least_squares
    k = len(theta0)

    def model(th):
        a = [np.full_like(x, th[j] if j < k else 0.0) for j in range(4)]
        v, good = p1.tree_values(labels, x=x, a=a)
        return v, good

    def resid(th):
        v, good = model(th)
        r = (v - y) / sig
        return np.where(np.isfinite(r), r, 1e6)
    sol = least_squares(resid, np.array(theta0, dtype=float), method="lm", xtol=1e-14, ftol=1e-14, gtol=1e-14)
    th = sol.x
    v, good = model(th)
    if not good.all():
        return {"ok": False}

    def nll(t):
        vv, gg = model(t)
        return gauss_nll(vv, y, sig) if gg.all() else float("inf")
    H = np.zeros((k, k))
    for i in range(k):
        for j in range(i, k):
            hi, hj = 1e-4 * max(abs(th[i]), 1e-3), 1e-4 * max(abs(th[j]), 1e-3)
            ei, ej = np.eye(k)[i] * hi, np.eye(k)[j] * hj
            H[i, j] = H[j, i] = (nll(th + ei + ej) - nll(th + ei - ej) - nll(th - ei + ej) + nll(th - ei - ej)) / (4 * hi * hj)
    ok = bool(np.all(np.isfinite(H)) and np.all(np.linalg.eigvalsh(H) > 0))
    return {"ok": ok, "nll": nll(th), "theta": th, "Idiag": np.diag(H), "moved": float(np.max(np.abs(th - np.array(theta0)) / np.maximum(np.abs(theta0), 1e-9)))}


def dl_interval_at(labels, x, y, sig, theta, Idiag, tree_code, margin=0.02):
    """description length interval (snapping ties either way) at a given optimum of any tree"""
    import itertools
    k = len(theta)
    steps = np.abs(theta) * np.sqrt(np.asarray(Idiag) / 12.0)
    sure = [i for i in range(k) if steps[i] < 1 - margin]
    maybe = [i for i in range(k) if 1 - margin <= steps[i] <= 1 + margin]
    vals = []
    for r in range(len(maybe) + 1):
        for extra in itertools.combinations(maybe, r):
            drop = set(sure) | set(extra)
            kept = [i for i in range(k) if i not in drop]
            t2 = [0.0 if i in drop else theta[i] for i in range(k)]
            a = [np.full_like(x, t2[j] if j < k else 0.0) for j in range(4)]
            v, good = p1.tree_values(labels, x=x, a=a)
            if not good.all():
                continue          # snapping would make the likelihood infinite: not dropped
            vals.append(gauss_nll(v, y, sig) + (codelen(theta, Idiag, kept) if kept else 0.0) + tree_code)
    if not vals:
        vals = [float("nan")]
    return min(vals), max(vals)


# ----------------------------------------------------------------------------- trees that are linear in parameter ATOMS (Trees!AtomLin)
def _subtree_end(labels, p):
    """index just past the sub-tree starting at position p (0-based) of a prefix label list"""
    need, q = 1, p
    while need > 0:
        need += p1.arity(labels[q]) - 1
        q += 1
    return q


def atom_description_lengths(labels, roots, x, y, sig, tree_code, margin=0.02):
    """independent DL interval of a tree that is affine in its parameter atoms (roots: 1-based start positions from TLC).
    Each atom must depend on exactly one parameter, atoms on distinct parameters, and there must be as many atoms as parameters."""
    from scipy.optimize import brentq
    roots = sorted(r - 1 for r in roots)
    params = sorted({l for l in labels if l.startswith("a") and l[1:].isdigit()}, key=lambda s: int(s[1:]))
    atoms, outer, pos, j = [], [], 0, 0
    while pos < len(labels):
        if pos in roots:
            end = _subtree_end(labels, pos)
            sub = labels[pos:end]
            ps = sorted({l for l in sub if l in params})
            if len(ps) != 1:
                raise NotLinear("atom with %d parameters" % len(ps))
            atoms.append((ps[0], sub))
            outer.append("a%d" % j)
            j += 1
            pos = end
        else:
            outer.append(labels[pos])
            pos += 1
    if len(atoms) != len(params) or len({a[0] for a in atoms}) != len(atoms):
        raise NotLinear("atoms and parameters are not in one-to-one correspondence")
    ft = fit(outer, x, y, sig)                       # closed form in the atom values c
    k = ft["k"]
    one = np.array([1.0])

    def g(sub, pname, t):
        a = [one * 0.0] * 4
        a[int(pname[1:])] = one * t
        v, good = p1.tree_values(sub, x=one, a=a)
        return float(v[0]) if good[0] else float("nan")
    sols = []
    for jj, (pname, sub) in enumerate(atoms):
        target = float(ft["theta"][jj])
        found = []
        grid = np.concatenate([-np.logspace(6, -6, 1500), np.logspace(-6, 6, 1500)])
        vals = np.array([g(sub, pname, t) - target for t in grid])
        for a_, b_, va, vb in zip(grid[:-1], grid[1:], vals[:-1], vals[1:]):
            if np.isfinite(va) and np.isfinite(vb) and va * vb < 0 and a_ * b_ > 0:
                try:
                    rt = brentq(lambda t: g(sub, pname, t) - target, a_, b_, xtol=1e-14, rtol=1e-13)
                except Exception:
                    continue
                if abs(g(sub, pname, rt) - target) <= 1e-8 * max(1.0, abs(target)):
                    found.append(rt)
        if not found:
            raise NotLinear("atom %s cannot take the value %g" % (sub, target))
        sols.append((pname, sub, found))
    import itertools
    lo, hi, info = float("inf"), -float("inf"), None
    for combo in itertools.product(*[s[2] for s in sols]):
        theta = np.zeros(len(params))
        Idiag = np.zeros(len(params))
        for jj, ((pname, sub, _), t) in enumerate(zip(sols, combo)):
            h = 1e-6 * max(abs(t), 1e-6)
            d = (g(sub, pname, t + h) - g(sub, pname, t - h)) / (2 * h)
            pi = params.index(pname)
            theta[pi] = t
            Idiag[pi] = d * d * ft["I"][jj, jj]
        if not np.all(np.isfinite(Idiag)) or np.any(Idiag <= 0):
            raise NotLinear("singular reparametrisation")
        l_, h_ = dl_interval_at(labels, x, y, sig, theta, Idiag, tree_code, margin)
        if not (math.isfinite(l_) and math.isfinite(h_)):
            raise NotLinear("description length not finite")
        lo, hi = min(lo, l_), max(hi, h_)
        info = {"nll": ft["nll"], "theta": theta.tolist(), "Idiag": Idiag.tolist(), "atoms": [s[1] for s in sols], "solutions": [len(s[2]) for s in sols]}
    return lo, hi, info
