"""Readers of ESR's library files (text formats as the code writes them)."""
import csv, os, re

_TOK = re.compile(r"'([^']*)'")


def read_trees(path):
    """trees_n / orig_trees_n / extra_trees_n: numpy-repr for originals (['inv' 'x']),
    list-repr for extras (['inv', 'x']), possibly wrapped in pprint's quotes."""
    out = []
    with open(path) as f:
        for line in f:
            line = line.rstrip("\n")
            if not line.strip():
                continue
            out.append(_TOK.findall(line))
    return out


def read_lines(path, strip_quotes=True):
    out = []
    with open(path) as f:
        for line in f:
            s = line.rstrip("\n")
            if strip_quotes and len(s) >= 2 and s[0] == s[-1] and s[0] in "'\"":
                s = s[1:-1]
            out.append(s)
    return out


def read_floats(path):
    with open(path) as f:
        return [float(x) for x in f.read().split()]


def read_subs(path):
    with open(path) as f:
        return [row for row in csv.reader(f, delimiter=";")]
