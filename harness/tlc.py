"""Driver for TLC: run a spec/config, collect counts, PrintT'ed JSON lines and errors."""
import json, os, re, shutil, subprocess, tempfile, time

HERE = os.path.dirname(os.path.abspath(__file__))
SPEC = os.path.join(os.path.dirname(HERE), "spec")
JAR = "/opt/veriftools/tla/tla2tools.jar:/opt/veriftools/tla/CommunityModules-deps.jar"


class TLCError(Exception):
    pass


def _parse_printed(line):
    """PrintT of a string prints it as a TLA+ string literal: "...\\"..."  -> python str"""
    line = line.strip()
    if len(line) >= 2 and line[0] == '"' and line[-1] == '"':
        try:
            return json.loads(line)
        except Exception:
            return None
    return None


def run(module, cfg, env=None, workers=1, timeout=1800, simulate=None, depth=None, seed=None,
        cont=False, dfs=False, coverage=False, extra=None, heap="4g", constants=None):
    """Run TLC on spec/<module>.tla with spec/<cfg> (a file name in spec/, or literal cfg text).
    constants: dict name -> literal TLA+ text appended to the cfg as CONSTANT lines.
    Returns dict(ok, generated, distinct, depth, printed[list of str], json[list], out, violated[list], wall_s)."""
    work = tempfile.mkdtemp(prefix="tlc_")
    try:
        for f in os.listdir(SPEC):
            if f.endswith(".tla"):
                shutil.copy(os.path.join(SPEC, f), work)
        if "\n" in cfg or not os.path.exists(os.path.join(SPEC, cfg)):
            cfgtext = cfg
        else:
            cfgtext = open(os.path.join(SPEC, cfg)).read()
        runmod = module
        if constants:
            # cfg files cannot express tuples/records: constants become definitions of a wrapper module
            runmod = "MC_" + module
            with open(os.path.join(work, runmod + ".tla"), "w") as f:
                f.write("---- MODULE %s ----\nEXTENDS %s\n" % (runmod, module))
                for k, v in constants.items():
                    f.write("const_%s == %s\n" % (k, v))
                f.write("====\n")
            cfgtext += "\nCONSTANTS\n" + "\n".join("  %s <- const_%s" % (k, k) for k in constants) + "\n"
        cfgpath = os.path.join(work, "run.cfg")
        with open(cfgpath, "w") as f:
            f.write(cfgtext)
        cmd = ["java", "-XX:+UseParallelGC", "-Xmx" + heap, "-Djava.io.tmpdir=" + work]      # TLC's own temp files go with the work directory
        if dfs:
            cmd.append("-Dtlc2.tool.queue.IStateQueue=StateDeque")
        cmd += ["-cp", JAR, "tlc2.TLC", "-workers", str(workers), "-metadir", os.path.join(work, "meta"),
                "-noGenerateSpecTE", "-config", cfgpath]
        if cont:
            cmd.append("-continue")
        if coverage:
            cmd += ["-coverage", "1"]
        if simulate:
            cmd += ["-simulate", simulate]
        if depth:
            cmd += ["-depth", str(depth)]
        if seed is not None:
            cmd += ["-seed", str(seed)]
        if extra:
            cmd += list(extra)
        cmd.append(runmod + ".tla")
        e = dict(os.environ)
        e.update(env or {})
        t0 = time.time()
        try:
            p = subprocess.run(cmd, cwd=work, env=e, stdout=subprocess.PIPE, stderr=subprocess.STDOUT,
                               timeout=timeout)
            out = p.stdout.decode("utf8", "replace")
            rc = p.returncode
        except subprocess.TimeoutExpired as ex:
            out = (ex.stdout or b"").decode("utf8", "replace") + "\nTLC TIMEOUT"
            rc = -9
        wall = time.time() - t0
        res = {"rc": rc, "out": out, "wall_s": wall, "printed": [], "json": [], "violated": [],
               "generated": 0, "distinct": 0, "depth": 0}
        for line in out.splitlines():
            s = _parse_printed(line)
            if s is not None:
                res["printed"].append(s)
                if s[:1] in "{[":
                    try:
                        res["json"].append(json.loads(s))
                    except Exception:
                        pass
            m = re.search(r"(\d+) states generated, (\d+) distinct states found", line)
            if m:
                res["generated"], res["distinct"] = int(m.group(1)), int(m.group(2))
            m = re.search(r"depth of the complete state graph search is (\d+)", line)
            if m:
                res["depth"] = int(m.group(1))
            m = re.search(r"Error: Invariant (\S+) is violated", line)
            if m:
                res["violated"].append(m.group(1))
            m = re.search(r"Error: Action property (\S+) is violated", line)
            if m:
                res["violated"].append(m.group(1))
            if "Temporal properties were violated" in line:
                res["violated"].append("temporal")
            if "Deadlock reached" in line:
                res["violated"].append("deadlock")
            if re.search(r"Error: Assumption .* is false", line):
                res["violated"].append("assumption")
            if "Postcondition" in line and ("violated" in line or "false" in line.lower()):
                res["violated"].append("postcondition")
        res["completed"] = ("Model checking completed" in out) or ("Finished in" in out and simulate is not None) \
            or bool(re.search(r"Finished in", out))
        res["error"] = None
        hard = [l for l in out.splitlines() if l.startswith("Error:") or "Exception" in l or "Parsing or semantic analysis failed" in l]
        if hard and not res["violated"]:
            res["error"] = "\n".join(hard[:10])
        if rc == -9:
            res["error"] = "timeout"
        res["ok"] = res["completed"] and not res["violated"] and not res["error"]
        return res
    finally:
        shutil.rmtree(work, ignore_errors=True)


def must(res, what=""):
    """Machinery failure unless TLC completed without a parse/eval error."""
    if res["error"] or not res["completed"]:
        raise TLCError("TLC failed %s: %s\n%s" % (what, res["error"], res["out"][-3000:]))
    return res


def sany(module):
    # proof modules EXTEND TLAPS.tla, which ships with tlapm, not with tla2tools
    jar = JAR + (":/opt/veriftools/tlapm/lib/tlapm/stdlib" if module.endswith("Proofs") else "")
    p = subprocess.run(["java", "-cp", jar, "-DTLA-Library=/opt/veriftools/tlapm/lib/tlapm/stdlib", "tla2sany.SANY", module + ".tla"], cwd=SPEC,
                       stdout=subprocess.PIPE, stderr=subprocess.STDOUT)
    out = p.stdout.decode()
    return ("Semantic errors" not in out and "Parse Error" not in out and "Fatal" not in out
            and "Could not" not in out and p.returncode == 0), out


def judge(module, cases, cfg="Judge.cfg", constants=None, timeout=1800, heap="4g", env=None):
    """TLC as the judge of a batch of observations (one state per case).
    cases: list of dicts with unique 'id'.  Returns (res, {id: [failed clause names]})."""
    if not cases:
        return {"distinct": 0, "generated": 0, "depth": 0, "wall_s": 0.0}, {}
    d = tempfile.mkdtemp(prefix="judge_")
    try:
        path = os.path.join(d, "cases.ndjson")
        with open(path, "w") as f:
            for c in cases:
                f.write(json.dumps(c) + "\n")
        e = {"CASES": path}
        e.update(env or {})
        res = must(run(module, cfg, env=e, workers=1, constants=constants, timeout=timeout, heap=heap),
                   "judge " + module)
        if res["violated"]:
            raise TLCError("judge %s: unexpected invariant violation %s\n%s" % (module, res["violated"], res["out"][-2000:]))
        failed, judged = {}, None
        for j in res["json"]:
            if isinstance(j, dict) and "failed" in j:
                failed[j["id"]] = j["failed"]
            if isinstance(j, dict) and "judged" in j:
                judged = j["judged"]
        if judged != len(cases):
            raise TLCError("judge %s: judged %s of %d cases\n%s" % (module, judged, len(cases), res["out"][-2000:]))
        return res, failed
    finally:
        shutil.rmtree(d, ignore_errors=True)


def validate_trace(module, cfg, events, timeout=1800, heap="4g", dfs=False):
    """Trace validation: events (list of dicts; the first is a header) -> (accepted, consumed, res)."""
    d = tempfile.mkdtemp(prefix="trace_")
    try:
        path = os.path.join(d, "trace.ndjson")
        with open(path, "w") as f:
            for e in events:
                f.write(json.dumps(e) + "\n")
        res = must(run(module, cfg, env={"CASES": path}, workers=1, timeout=timeout, heap=heap, dfs=dfs), "trace " + module)
        consumed = None
        for j in res["json"]:
            if isinstance(j, dict) and "consumed" in j:
                consumed = j["consumed"]
        inv = [v for v in res["violated"] if v != "postcondition"]
        clauses = []
        for j in res["json"]:
            if isinstance(j, dict) and "violated" in j and j["violated"] not in [c[0] for c in clauses]:
                clauses.append((j["violated"], j["at"]))
        res["clauses"] = clauses
        accepted = (consumed == len(events)) and not inv and not clauses
        return accepted, consumed, res
    finally:
        shutil.rmtree(d, ignore_errors=True)
