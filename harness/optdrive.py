"""C10: drivers that run inside 1-rank worker processes (harness/pool.py) and call the real
esr.fitting.test_all.optimise_fun, either with a scripted `minimize` (replay of behaviours of spec/Opt.tla)
or with the real scipy minimize wrapped by a recorder (trace validation of real fits).

Only projections live here (floats -> integers / ids); every decision is taken by TLC (spec/OptJudge.tla)."""
import io, contextlib, json, math, os

INF = 1000000000          # Opt!INF
UNIT_SCRIPT = 4           # scripted values are integers in units of 1/4 (0.5 -> 2, 2 -> 8): exact in binary
UNIT_TRACE = 1000000      # recorded values are projected to units of 1e-6
GAPCAP = 3 * UNIT_TRACE   # gaps larger than 3 (> both thresholds) are shortened to 3: no decision changes
MAX_PARAM = 4

# the code configurations a behaviour of a mode is replayed on (function string, log_opt)
CONFIGS = {
    "lin": [("a0*x", False), ("a0*x + a1", False), ("a0*x + a1 + a2*x**2", False), ("a0*x + a1 + a2*x**2", True)],
    "log1": [("a0*x", True)],
    "log2": [("a0*x + a1", True)],
}
NPAR = {"a0*x": 1, "a0*x + a1": 2, "a0*x + a1 + a2*x**2": 3}


def script_x(mode, it, br, npar):
    """The x the stub reports for (iteration, branch): identifies the call; in linear mode every second
    entry is negative (returned as is), in log modes all entries are exponents."""
    base = [it + 0.1 * br + 0.01 * (k + 1) for k in range(npar)]
    if mode == "lin":
        return [(-v if k % 2 else v) for k, v in enumerate(base)]
    return base


def _branch_of(signs, signtable):
    """index (1-based) of the branch whose `signs` argument this is, by the table printed by the model"""
    if signs is None:
        key = []
    else:
        key = [1 if s == "+" else -1 if s == "-" else 0 for s in signs]
    for b, row in enumerate(signtable):
        if list(row) == key:
            return b + 1
    return 0


def decode(params, npar, cands):
    """cands: list of (it, br, x list).  -> (it, br, back, signs, padok): which call the returned parameters come
    from and how they were transformed.  Pure identification (ids), no decision."""
    import numpy as np
    p = np.asarray(params, dtype=float)
    padok = bool(len(p) == MAX_PARAM and np.all(p[npar:] == 0.0))
    head = p[:npar]
    if np.all(head == 0.0):
        return 0, 0, "none", [], padok
    for it, br, x in cands:
        if np.array_equal(head, np.asarray(x, dtype=float)):
            return it, br, "id", [], padok
    if np.all(head != 0) and np.all(np.isfinite(head)):
        mags = np.log10(np.abs(head))
        for it, br, x in cands:
            if np.allclose(mags, np.asarray(x, dtype=float), rtol=0, atol=1e-9):
                return it, br, "pow10", [int(1 if v > 0 else -1) for v in head], padok
    return 0, 0, "unknown", [], padok


def replay_batch(in_path, out_path, workdir):
    """cases: [{id, mode, fstr, log_opt, niter, nconv, hist (ints, INF token), signtable}] -> observations of the
    real optimise_fun when `minimize` (module attribute of esr.fitting.test_all) answers from hist."""
    import numpy as np
    from scipy.optimize import OptimizeResult
    from harness.targets import make_like
    from harness import data
    import esr.fitting.test_all as ta
    cases = json.load(open(in_path))
    os.makedirs(workdir, exist_ok=True)
    data.gauss_file(os.path.join(workdir, "d.txt"), lambda x: 2.0 * x + 1.0, n=8, sigma=0.2, seed=3)
    like = make_like("gauss", "d.txt", "r", workdir, "core_maths")
    real = ta.minimize
    out = []
    try:
        for c in cases:
            mode, hist, npar = c["mode"], c["hist"], NPAR[c["fstr"]]
            nb = len(c["signtable"])
            counts = [0] * (nb + 1)
            log = {"bad_branch": 0, "beyond": 0, "order": []}

            def stub(fun, x0, args=(), **kw):
                b = _branch_of(args[3], c["signtable"])
                if b == 0:
                    log["bad_branch"] += 1
                    b = 1
                counts[b] += 1
                it = counts[b]
                if len(log["order"]) < nb:
                    log["order"].append(b)
                if it > len(hist):
                    log["beyond"] += 1
                    v = INF
                else:
                    v = hist[it - 1][b - 1]
                f = float("inf") if v == INF else v / float(UNIT_SCRIPT)
                return OptimizeResult(fun=f, x=np.array(script_x(mode, it, b, npar)), success=True, nit=1)
            ta.minimize = stub
            rec = {"id": c["id"]}
            try:
                with contextlib.redirect_stdout(io.StringIO()):
                    chi2, params = ta.optimise_fun(c["fstr"], like, 5, 0, 3, comp=0, log_opt=c["log_opt"],
                                                   Niter_params=[c["niter"]], Nconv_params=[c["nconv"]])
                chi2 = float(chi2)
                if math.isinf(chi2) and chi2 > 0:
                    value = INF
                elif math.isfinite(chi2) and float(chi2 * UNIT_SCRIPT).is_integer() and abs(chi2 * UNIT_SCRIPT) < INF:
                    value = int(chi2 * UNIT_SCRIPT)
                else:
                    value = -7                 # not a value of the script
                n = counts[1] if all(k == counts[1] for k in counts[1:]) else -1
                cands = [(it, b, script_x(mode, it, b, npar)) for it in range(1, max(counts) + 1) for b in range(1, nb + 1)]
                it, br, back, signs, padok = decode(params, npar, cands)
                rec.update({"obs": {"value": value, "n": n, "it": it, "br": br, "back": back, "signs": signs, "padok": padok},
                            "chi2": repr(chi2), "params": [float(v) for v in params], "calls": counts[1:],
                            "bad_branch": log["bad_branch"], "order": log["order"]})
            except Exception as e:             # the routine must not raise on any scripted history
                rec["raised"] = "%s: %s" % (type(e).__name__, e)
            out.append(rec)
    finally:
        ta.minimize = real
    json.dump(out, open(out_path, "w"))


# ----------------------------------------------------------------------------- real fits
FAMILIES = {
    # name: (function string, design matrix columns as functions of x) -- the closed form (P5) is the harness's own
    "const": ("a0", lambda x: [1.0 + 0 * x]),          # no x: the model function returns a scalar
    "prop": ("a0*x", lambda x: [x]),
    "line": ("a0*x + a1", lambda x: [x, 1.0 + 0 * x]),
    "quad": ("a0 + a1*x + a2*x**2", lambda x: [1.0 + 0 * x, x, x * x]),
    "invx": ("a0*inv(x) + a1", lambda x: [1.0 / x, 1.0 + 0 * x]),
}


def wls(x, y, s, cols):
    """closed-form weighted least squares: (NLL at the optimum, theta)"""
    import numpy as np
    Phi = np.array(cols(x)).T
    A = Phi / s[:, None]
    theta, *_ = np.linalg.lstsq(A, y / s, rcond=None)
    r = (y - Phi @ theta) / s
    return float(np.sum(0.5 * r * r + 0.5 * np.log(2 * np.pi) + np.log(s))), [float(t) for t in theta]


def project_trace(calls, nb, chi2):
    """recorded fun values (floats) -> integers in units of 1e-6 (P2): values are sorted, gaps above 3 are
    shortened to 3, +inf -> INF.  Returns (hist, value, borderline): borderline = some pair of values differs
    by an amount within 2e-6 of a threshold of the loop (0.5 or 2), where rounding could flip a decision."""
    vals = sorted({c["fun"] for c in calls if math.isfinite(c["fun"])})
    m, pos, prev, anchor, abase = {}, 0, None, None, 0
    for v in vals:
        if prev is None:
            anchor, abase = v, 0
        elif (v - prev) * UNIT_TRACE > GAPCAP:
            abase = m[prev] + GAPCAP
            anchor = v
        m[v] = abase + int(round((v - anchor) * UNIT_TRACE))
        prev = v
    border = False
    for i, a in enumerate(vals):
        for b in vals[i + 1:]:
            d = b - a
            if d > 2.1:
                break
            if abs(d - 0.5) < 2e-6 or abs(d - 2.0) < 2e-6:
                border = True

    def tok(f):
        if math.isinf(f) and f > 0:
            return INF
        return m.get(f, -7)
    n = len(calls) // nb
    hist = [[tok(calls[i * nb + b]["fun"]) for b in range(nb)] for i in range(n)]
    return hist, tok(chi2), border


def fit_batch(in_path, out_path, workdir):
    """cases: [{id, kind, fstr, family, theta, sigma, n, dseed, log_opt, seed, niter, nconv, signtable, mode}] ->
    the real optimise_fun with the real scipy minimize, every call recorded."""
    import numpy as np, sympy
    from harness.targets import make_like
    import esr.fitting.test_all as ta
    from esr.fitting.sympy_symbols import x as sx
    cases = json.load(open(in_path))
    os.makedirs(workdir, exist_ok=True)
    real = ta.minimize
    out = []
    try:
        for c in cases:
            dd = os.path.join(workdir, "c%d" % c["id"])
            os.makedirs(dd, exist_ok=True)
            rng = np.random.RandomState(c["dseed"])
            if c["kind"] == "fit":
                cols = FAMILIES[c["family"]][1]
                xs = np.linspace(0.5, 3.0, c["n"])
                ytrue = np.array(cols(xs)).T @ np.array(c["theta"], dtype=float)
            else:
                xs = np.array([0.5, 1.0, 1.5, 2.0, 2.5, 3.0])
                ytrue = xs * xs
            # error bars that differ from point to point, rows of the file in no particular order (the likelihood is a sum over the points)
            sg = c["sigma"] * (0.7 + 0.6 * ((np.arange(len(xs)) * 7) % 11) / 10.0)
            ys = ytrue + c.get("noise", 1.0) * sg * rng.standard_normal(len(xs))
            order = np.random.RandomState(c["dseed"] + 1).permutation(len(xs))
            xs, ys, sg = xs[order], ys[order], sg[order]
            np.savetxt(os.path.join(dd, "d.txt"), np.transpose([xs, ys, sg]))
            xs, ys, sg = np.loadtxt(os.path.join(dd, "d.txt"), unpack=True)       # what the code will read
            like = make_like("gauss", "d.txt", "r", dd, "core_maths")
            calls = []

            def rec_minimize(fun, x0, args=(), **kw):
                res = real(fun, x0, args=args, **kw)
                calls.append({"signs": args[3], "x": [float(v) for v in np.atleast_1d(res.x)], "fun": float(res["fun"]),
                              "x0": [float(v) for v in np.atleast_1d(x0)]})
                return res
            ta.minimize = rec_minimize
            rec = {"id": c["id"]}
            try:
                np.random.seed(c["seed"])
                with contextlib.redirect_stdout(io.StringIO()):
                    chi2, params = ta.optimise_fun(c["fstr"], like, 5, 0, 3, comp=0, log_opt=c["log_opt"],
                                                   Niter_params=_lst(c["niter"]), Nconv_params=_lst(c["nconv"]))
                chi2 = float(chi2)
                params = [float(v) for v in params]
                rec.update({"chi2": chi2, "params": params, "ncalls": len(calls)})
                direct = None
                if c["kind"] == "free":
                    direct = float(np.sum(0.5 * (_direct_pred(c, xs) - ys) ** 2 / sg ** 2 + 0.5 * np.log(2 * np.pi) + np.log(sg)))
                rec["direct"] = direct
                if c["kind"] == "fit":
                    npar = len(c["theta"])
                    nb = len(c["signtable"])
                    ref, thref = wls(xs, ys, sg, FAMILIES[c["family"]][1])
                    # the likelihood at the returned parameters, by the real likelihood object
                    _, eq, _ = like.run_sympify(c["fstr"])
                    syms = [sx] + [sympy.Symbol("a%d" % j, real=True) for j in range(npar)]
                    eqn = sympy.lambdify(syms, eq, modules=["numpy"])
                    at = float(like.negloglike(params[:npar], eqn))
                    rec.update({"ref": ref, "theta_ref": thref, "at_params": at})
                    # branch order of the recorded calls must be the model's table in every iteration
                    order_ok = (len(calls) % nb == 0) and all(
                        _branch_of(calls[i]["signs"], c["signtable"]) == (i % nb) + 1 for i in range(len(calls)))
                    rec["order_ok"] = bool(order_ok)
                    if order_ok:
                        hist, value, border = project_trace(calls, nb, chi2)
                        cands = []
                        for i, cl in enumerate(calls):
                            cands.append((i // nb + 1, i % nb + 1, cl["x"]))
                        # prefer the call whose value is the returned one (several calls may end at the same x)
                        cands.sort(key=lambda t: (calls[(t[0] - 1) * nb + t[1] - 1]["fun"] != chi2, t[0], t[1]))
                        it, br, back, signs, padok = decode(params, npar, cands)
                        rec["obs"] = {"value": value, "n": len(hist), "it": it, "br": br, "back": back, "signs": signs, "padok": padok}
                        rec["hist"], rec["borderline"] = hist, border
                        rec["funs"] = [[calls[i * nb + b]["fun"] for b in range(nb)] for i in range(len(hist))]
                        rec["starts_in_box"] = bool(all(0 <= v <= 3 for cl in calls for v in cl["x0"]))
            except Exception as e:
                rec["raised"] = "%s: %s" % (type(e).__name__, e)
            out.append(rec)
    finally:
        ta.minimize = real

    json.dump(out, open(out_path, "w"))          # python's json keeps Infinity / NaN


def _lst(v):
    return list(v) if isinstance(v, (list, tuple)) else [v]


def _direct_pred(c, xs):
    """prediction of the parameter-free functions used by the check (the harness's own arithmetic)"""
    return {"x*x": xs * xs, "inv(x) + x": 1.0 / xs + xs, "sqrt(x)": xs ** 0.5}[c["fstr"]]
