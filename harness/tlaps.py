"""Driver for the TLA+ proof system: check spec/<module>.tla in a fresh scratch directory (no fingerprint cache is reused)."""
import os, re, shutil, subprocess, tempfile, time

HERE = os.path.dirname(os.path.abspath(__file__))
SPEC = os.path.join(os.path.dirname(HERE), "spec")


class TLAPSError(Exception):
    pass


def prove(module, patch=None, timeout=900, stretch=None):
    """Run tlapm on spec/<module>.tla.  patch: optional {file: (old, new)} textual replacement applied to the scratch copy
    (used by self-tests: a changed definition must make a proof fail).
    Returns dict(ok, obligations, failed, wall_s, out)."""
    work = tempfile.mkdtemp(prefix="tlaps_")
    try:
        for f in os.listdir(SPEC):
            if f.endswith(".tla"):
                shutil.copy(os.path.join(SPEC, f), work)
        for f, (old, new) in (patch or {}).items():
            p = os.path.join(work, f)
            s = open(p).read()
            if old not in s:
                raise TLAPSError("self-test patch does not apply to %s" % f)
            open(p, "w").write(s.replace(old, new))
        cmd = ["tlapm", "--cleanfp", "--threads", "8", "-k"]
        if stretch:
            cmd += ["--stretch", str(stretch)]
        cmd.append(module + ".tla")
        t0 = time.time()
        try:
            p = subprocess.run(cmd, cwd=work, stdout=subprocess.PIPE, stderr=subprocess.STDOUT, text=True, timeout=timeout)
        except subprocess.TimeoutExpired:
            raise TLAPSError("tlapm timed out on %s" % module)
        out = p.stdout
        m = re.search(r"All (\d+) obligations? proved", out)
        f = re.search(r"(\d+)/(\d+) obligations? failed", out)
        if m:
            return dict(ok=True, obligations=int(m.group(1)), failed=0, wall_s=round(time.time() - t0, 2), out=out)
        if f:
            return dict(ok=False, obligations=int(f.group(2)), failed=int(f.group(1)), wall_s=round(time.time() - t0, 2), out=out)
        raise TLAPSError("tlapm output not understood for %s:\n%s" % (module, out[-2000:]))
    finally:
        shutil.rmtree(work, ignore_errors=True)
