"""C11 binding: feed TLC-enumerated trees to the real find_additional_trees in worker processes
(harness/pool.py), project what comes back to the records judged by spec/RewriteJudge.tla.

Nothing here decides the property: the worker records what the driver returned and projects
(labels -> P1 arities / integer witnesses / interned ids, floats -> P1 class ids); TLC decides.

Watchdog (DESIGN.md 7.3): every call of the driver runs under a SIGALRM timer of `limit` seconds
(default 20 s; measured mean 1 ms, slowest 0.012 s) whose exception does not derive from Exception, so
the code under test cannot swallow it.  A tree that hits the limit is re-run alone in a fresh process
and reported only if it hits the limit again.  The process-level timeout of the pool is the backstop for
a hang inside C code (no bytecode boundary): the tree in progress is then re-run alone the same way."""
import contextlib, io, json, os, re, signal, tempfile, traceback

from harness import pool

_INT = re.compile(r"-?\d+$")
DEGRADE_AFTER = 3         # watchdog expiries in one worker process before the short limit applies
SHORT = 1.0               # seconds
ALONE = 12                # suspects re-run one per process; further suspects share fresh processes


class Watchdog(BaseException):
    pass


class WorkerFailure(Exception):
    """the stand-in / worker machinery failed (exit 2), not the code under test"""


def _alarm(signum, frame):
    raise Watchdog()


def _lab(x):
    return str(x) if isinstance(x, str) else "<%s>" % type(x).__name__


def _key(lst):
    return json.dumps(lst, default=_lab)


# ------------------------------------------------------------------------------------------- worker side
def one_tree(g, np, p1, basis, item, limit):
    """Run the real driver on one tree; return the projected observation."""
    shape, orig = item["shape"], [str(l) for l in item["labels"]]
    _, _, tree = g.check_tree(np.array(shape))
    L = list(np.array(orig, dtype="U100"))            # what shape_to_functions passes: list(labels) of a U100 array
    rec = {"k": item["k"], "status": "ok", "orig": orig, "shape": shape, "rewrites": [], "stdout": ""}
    buf = io.StringIO()
    signal.signal(signal.SIGALRM, _alarm)
    signal.setitimer(signal.ITIMER_REAL, limit)
    try:
        with contextlib.redirect_stdout(buf):
            nt, nl = g.find_additional_trees(tree, L, basis)
    except Watchdog:
        rec["status"] = "timeout"
        return rec
    except Exception as e:
        signal.setitimer(signal.ITIMER_REAL, 0)
        rec.update(status="raise", etype=type(e).__name__, msg=str(e)[:300],
                   where=[("%s:%d %s" % (os.path.basename(f.filename), f.lineno, f.name))
                          for f in traceback.extract_tb(e.__traceback__) if os.sep + "esr" + os.sep in f.filename][-3:])
        return rec
    finally:
        signal.setitimer(signal.ITIMER_REAL, 0)
    rec["stdout"] = buf.getvalue()[-300:]
    try:
        nl = list(nl)
        nt = list(nt)
        lists = [list(l) if isinstance(l, (list, tuple, np.ndarray)) else [l] for l in nl]
    except Exception as e:
        rec.update(status="raise", etype="NotAList", msg="returned %s" % type(nl).__name__, where=[])
        return rec
    # interned ids of the label lists (P4); id 0 is the label list that was passed in
    ids = {_key(orig): 0}
    rec["lids"] = [ids.setdefault(_key(l), len(ids)) for l in lists]
    rec["oid"] = 0
    rec["ntrees_returned"] = len(nt)
    ref, good = p1.tree_values(orig)
    cls_orig = 0 if int(good.sum()) >= 3 else -1
    for idx in range(1, len(lists)):
        new = [_lab(x) for x in lists[idx]]
        wit = [int(l) if _INT.match(l) and abs(int(l)) < 2 ** 31 else 0 for l in new]
        ar = []
        for l in new:
            try:
                ar.append(p1.arity(l))
            except p1.Malformed:
                ar.append(9)
        try:
            types = [int(t.type) for t in nt[idx]]
        except Exception:
            types = []
        cls_new, info = -1, ""
        if cls_orig == 0:
            try:
                v, _ = p1.tree_values(new)
                verdict, info = p1.compare(ref, good, v, hp_ref=lambda ii: p1.tree_values_hp(orig, ii),
                                           hp_other=lambda ii: p1.tree_values_hp(new, ii))
                cls_new = -1 if verdict is None else (0 if verdict else idx)
            except p1.Malformed as e:
                info = "not evaluable: %s" % e
            except Exception as e:                      # e.g. a parameter P1 has no value for
                info = "not evaluable: %s: %s" % (type(e).__name__, e)
        rec["rewrites"].append({"idx": idx, "new": new, "wit": wit, "ar": ar, "types": types,
                                "clsOrig": cls_orig, "clsNew": cls_new, "info": info})
    return rec


def worker(infile, outfile, limit):
    """pool target: JSON task file -> NDJSON observations (a 'start' line before every tree)."""
    with open(infile) as f:
        task = json.load(f)
    import numpy as np
    import esr.generation.generator as g
    from harness import p1
    with open(outfile, "a") as out:
        def emit(o):
            out.write(json.dumps(o) + "\n")
            out.flush()
        emit({"ready": 1})
        expired = 0
        for item in task["items"]:
            emit({"start": item["k"]})
            # a systematic hang must not cost 20 s per tree: after DEGRADE_AFTER expiries in this process the
            # remaining trees run under the short limit (still ~100x the slowest measured call); whatever expires
            # is only a suspect and gets its second opinion in a fresh process
            rec = one_tree(g, np, p1, task["bases"][item["b"]], item, limit if expired < DEGRADE_AFTER else min(limit, SHORT))
            if rec["status"] == "timeout":
                expired += 1
            emit(rec)
        emit({"end": 1})


# ------------------------------------------------------------------------------------------- harness side
def _launch(scratch, bases_list, chunks, limit, backstop):
    d = tempfile.mkdtemp(prefix="rewrite_", dir=scratch)
    args = []
    for c, items in enumerate(chunks):
        inf, outf = os.path.join(d, "in%d.json" % c), os.path.join(d, "out%d.ndjson" % c)
        with open(inf, "w") as f:
            json.dump({"bases": bases_list, "items": items}, f)
        args.append((inf, outf, limit))
    res = pool.parallel("harness.rewrite:worker", args, scratch, timeout=backstop)
    out = []
    for (rc, tail), (inf, outf, _), items in zip(res, args, chunks):
        recs, started, ended = {}, None, False
        if os.path.exists(outf):
            with open(outf) as f:
                for line in f:
                    try:
                        o = json.loads(line)
                    except ValueError:
                        continue                       # a line cut by the kill
                    if "start" in o:
                        started = o["start"]
                    elif "end" in o:
                        ended = True
                    elif "k" in o:
                        recs[o["k"]] = o
        if rc not in (0, -9) or (rc == 0 and not ended):
            raise WorkerFailure("rewrite worker failed rc=%s\n%s" % (rc, tail))
        hung = started if (rc == -9 and started is not None and started not in recs) else None
        out.append((recs, hung, [it for it in items if it["k"] not in recs and it["k"] != hung]))
    return out


def run_trees(scratch, bases_list, items, nproc=6, limit=20.0):
    """items: [{"k": unique id, "b": index into bases_list, "shape": [...], "labels": [...]}].
    Returns {k: observation}; an observation with status 'nonterminating' hit the watchdog twice."""
    nproc = max(1, min(nproc, 6))
    results, pending, suspects, stats = {}, list(items), [], {"batches": 0, "watchdog_first": 0, "backstop": 0}
    while pending:
        chunks = pool.chunk(pending, nproc)
        backstop = 600 + limit * DEGRADE_AFTER + SHORT * max(len(c) for c in chunks)
        pending = []
        stats["batches"] += 1
        for recs, hung, rest in _launch(scratch, bases_list, chunks, limit, backstop):
            for k, r in recs.items():
                if r["status"] == "timeout":
                    suspects.append(k)
                else:
                    results[k] = r
            if hung is not None:
                stats["backstop"] += 1
                suspects.append(hung)
            pending += rest
    by_k = {it["k"]: it for it in items}
    stats["watchdog_first"] = len(suspects)
    # second opinion in a fresh process with the same limit: the first ALONE suspects one per process,
    # the others share fresh processes
    def second(groups, backstop):
        for (recs, hung, rest), grp in zip(_launch(scratch, bases_list, groups, limit, backstop), groups):
            for it in grp:
                r = recs.get(it["k"])
                if r is None and (it["k"] != hung and len(grp) > 1):
                    raise WorkerFailure("second opinion for tree %s missing (backstop hit in a shared process)" % it["labels"])
                if r is None or r["status"] == "timeout":
                    r = {"k": it["k"], "status": "nonterminating", "orig": [str(l) for l in it["labels"]],
                         "shape": it["shape"], "rewrites": []}
                results[it["k"]] = r

    alone, shared = suspects[:ALONE], suspects[ALONE:]
    for i in range(0, len(alone), nproc):
        second([[by_k[k]] for k in alone[i:i + nproc]], limit + 300)
    if shared and all(results[k]["status"] == "nonterminating" for k in alone):
        # a systematic hang, confirmed ALONE times: the run fails on those; the other suspects are neither
        # reported nor counted as evaluated (status 'suspect')
        for k in shared:
            it = by_k[k]
            results[k] = {"k": k, "status": "suspect", "orig": [str(l) for l in it["labels"]], "shape": it["shape"],
                          "rewrites": []}
        stats["suspects_not_rerun"] = len(shared)
    elif shared:
        second(pool.chunk([by_k[k] for k in shared], nproc), 600 + limit * (DEGRADE_AFTER + 1) + SHORT * len(shared))
    return results, stats


def cases_of(obs, name, basis, first_id=0):
    """observations of one basis -> NDJSON records for RewriteJudge (+ back references)."""
    cases, back = [], []
    for o in obs:
        if o["status"] == "suspect":                  # not observed (see run_trees): not judged, not counted
            continue
        ok = o["status"] == "ok"
        cases.append({"id": first_id + len(cases), "kind": "tree", "basisname": name, "orig": o["orig"],
                      "returned": ok, "raised": o.get("etype", o["status"] if not ok else ""),
                      "lids": o.get("lids", []), "oid": o.get("oid", 0), "nrewrites": len(o["rewrites"])})
        back.append((o, None))
        for rw in o["rewrites"]:
            cases.append({"id": first_id + len(cases), "kind": "rewrite", "basisname": name,
                          "b0": basis[0], "b1": basis[1], "b2": basis[2], "orig": o["orig"], "new": rw["new"],
                          "wit": rw["wit"], "ar": rw["ar"], "types": rw["types"], "clsOrig": rw["clsOrig"],
                          "clsNew": rw["clsNew"], "idx": rw["idx"]})
            back.append((o, rw))
    return cases, back
