"""MPI stand-in.  P = 1: in-process.  P > 1: this process is one of P ranks
attached to a coordinator (harness/coord.py) over an AF_UNIX socket; the
coordinator completes collectives, records their linearisation order and can
serialise the ranks according to a schedule (yield points)."""
import os, pickle, socket, struct, sys, copy

_SIZE = int(os.environ.get("ESR_STANDIN_SIZE", "1"))
_RANK = int(os.environ.get("ESR_STANDIN_RANK", "0"))
_SOCK = os.environ.get("ESR_STANDIN_SOCK")
_LOCAL_LOG = []          # P = 1: list of (op, root, plen) for the harness


def _send(sock, obj):
    b = pickle.dumps(obj, protocol=pickle.HIGHEST_PROTOCOL)
    sock.sendall(struct.pack("<Q", len(b)) + b)


def _recvn(sock, n):
    buf = bytearray()
    while len(buf) < n:
        chunk = sock.recv(min(1 << 20, n - len(buf)))
        if not chunk:
            raise EOFError("coordinator closed the connection")
        buf += chunk
    return bytes(buf)


def _recv(sock):
    (n,) = struct.unpack("<Q", _recvn(sock, 8))
    return pickle.loads(_recvn(sock, n))


def _plen(x):
    try:
        return len(x)
    except Exception:
        return -1


class _Comm:
    def __init__(self):
        self._sock = None
        if _SOCK is not None:
            s = socket.socket(socket.AF_UNIX, socket.SOCK_STREAM)
            s.connect(_SOCK)
            self._sock = s
            _send(s, ("hello", _RANK))
            r = _recv(s)            # start grant
            assert r[0] == "go", r

    # -- queries -------------------------------------------------------------
    def Get_rank(self):
        return _RANK

    def Get_size(self):
        return _SIZE

    rank = property(lambda self: _RANK)
    size = property(lambda self: _SIZE)

    # -- plumbing ------------------------------------------------------------
    def _coll(self, op, root, payload):
        if self._sock is None:
            _LOCAL_LOG.append((op, root, _plen(payload)))
            # pickle round trip: same copy semantics as a real communicator
            p = pickle.loads(pickle.dumps(payload, protocol=pickle.HIGHEST_PROTOCOL))
            if op == "bcast":
                return p
            if op == "gather":
                return [p]
            if op == "allgather":
                return [p]
            if op == "scatter":
                if len(p) != 1:
                    raise ValueError("scatter: sendobj length %d != size 1" % len(p))
                return p[0]
            if op == "barrier":
                return None
            raise NotImplementedError(op)
        _send(self._sock, ("coll", op, root, payload))
        r = _recv(self._sock)
        if r[0] == "abort":
            sys.stderr.write("standin: aborted by coordinator: %s\n" % (r[1],))
            sys.stderr.flush()
            os._exit(86)
        assert r[0] == "ok", r
        return r[1]

    def yield_point(self, kind, info=""):
        """Scheduling point for file-system primitives (sched mode only)."""
        if self._sock is None or not os.environ.get("ESR_STANDIN_YIELD"):
            return
        _send(self._sock, ("yield", kind, info))
        r = _recv(self._sock)
        if r[0] == "abort":
            os._exit(86)

    def note(self, kind, info):
        """Log-only event (no scheduling)."""
        if self._sock is None:
            return
        _send(self._sock, ("note", kind, info))

    # -- collectives ---------------------------------------------------------
    def bcast(self, obj=None, root=0):
        return self._coll("bcast", root, obj if _RANK == root else None)

    def gather(self, sendobj=None, root=0):
        return self._coll("gather", root, sendobj)

    def allgather(self, sendobj=None):
        return self._coll("allgather", 0, sendobj)

    def scatter(self, sendobj=None, root=0):
        return self._coll("scatter", root, sendobj if _RANK == root else None)

    def Barrier(self):
        return self._coll("barrier", 0, None)

    barrier = Barrier

    def Abort(self, errorcode=1):
        os._exit(errorcode)


COMM_WORLD = _Comm()


def Finalize():
    pass
