"""Stand-in for mpi4py (no libmpi in this sandbox).  See DESIGN.md section 9.2.

Only what ESR uses: MPI.COMM_WORLD with Get_rank, Get_size, bcast, gather,
scatter, allgather, Barrier (pickle semantics of mpi4py's lower-case methods).
"""
__version__ = "standin-1"
