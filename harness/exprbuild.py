"""Terms of spec/Expr.tla -> sympy objects, built the way ESR builds its own expressions
(x positive, a_i real, ordinary evaluating constructors), and the printing of a batch of terms
in a *fresh* interpreter (print determinism across processes, property C12).

A term is the JSON form of the TLA+ record [o |-> token, a |-> <<sub-terms>>]."""
import json, os, subprocess, sys

HERE = os.path.dirname(os.path.abspath(__file__))
VERIF = os.path.dirname(HERE)

UNARY = ("Neg", "Abs", "exp", "sin", "log", "sqrt")
BINARY = ("Add", "Mul", "Div", "Pow")


class BadTerm(Exception):
    pass


_SYMS = {}


def symbol(name):
    import sympy
    if name not in _SYMS:
        _SYMS[name] = sympy.Symbol("x", positive=True) if name == "x" else sympy.Symbol(name, real=True)
    return _SYMS[name]


def build(term):
    """sympy object of a term (evaluate=True: the printer receives what sympy canonicalises to)."""
    import sympy
    o, a = term["o"], term["a"]
    if not a:
        if o == "x" or (o[:1] == "a" and o[1:].isdigit()):
            return symbol(o)
        try:
            return sympy.Rational(o)
        except Exception:
            raise BadTerm("unknown leaf %r" % (o,))
    args = [build(c) for c in a]
    if len(args) == 1:
        e = args[0]
        if o == "Neg":
            return -e
        if o == "Abs":
            return sympy.Abs(e)
        if o == "exp":
            return sympy.exp(e)
        if o == "sin":
            return sympy.sin(e)
        if o == "log":
            return sympy.log(e)
        if o == "sqrt":
            return sympy.sqrt(e)
    elif len(args) == 2:
        l, r = args
        if o == "Add":
            return l + r
        if o == "Mul":
            return l * r
        if o == "Div":
            return l / r
        if o == "Pow":
            return sympy.Pow(l, r)
    raise BadTerm("unknown node %r with %d arguments" % (o, len(args)))


def nowhere_defined(expr):
    import sympy
    return expr.has(sympy.zoo) or expr.has(sympy.nan) or expr.has(sympy.oo) or expr.has(sympy.S.NegativeInfinity)


def infix(term):
    """readable form of a term for messages (not used in any verdict)"""
    o, a = term["o"], term["a"]
    if not a:
        return o
    return "%s(%s)" % (o, ", ".join(infix(c) for c in a))


# ----------------------------------------------------------------------------- fresh interpreter
def start_fresh_processes(scratch, terms, hashseeds):
    """Start fresh interpreters (one per hash seed, the batch is split between them) that print every
    term with ESRPrinter.  Returns a handle for collect_fresh (the processes run meanwhile)."""
    import tempfile
    n = len(hashseeds)
    d = tempfile.mkdtemp(prefix="c12_fresh_")
    jobs = []
    for k, hs in enumerate(hashseeds):
        part = terms[k::n]
        fin, fout, flog = [os.path.join(d, "%s_%d" % (w, k)) for w in ("in", "out", "log")]
        with open(fin, "w") as f:
            for t in part:
                f.write(json.dumps(t) + "\n")
        env = dict(os.environ)
        env["PYTHONHASHSEED"] = str(hs)
        p = subprocess.Popen([sys.executable, "-m", "harness.exprbuild", scratch, fin, fout], cwd=VERIF, env=env,
                             stdout=open(flog, "w"), stderr=subprocess.STDOUT)
        jobs.append((k, p, fout, flog, len(part)))
    return {"dir": d, "jobs": jobs, "n": n, "nterms": len(terms), "hashseeds": list(hashseeds)}


def collect_fresh(h, timeout=3600):
    """-> list parallel to the terms: the string, None where the term is nowhere defined, or {"error": text}."""
    import shutil
    try:
        out = [None] * h["nterms"]
        for k, p, fout, flog, m in h["jobs"]:
            p.wait(timeout=timeout)
            if p.returncode != 0 or not os.path.exists(fout):
                raise RuntimeError("fresh printing process %d failed (rc %s): %s" % (k, p.returncode, open(flog).read()[-2000:]))
            rows = [json.loads(l) for l in open(fout)]
            if len(rows) != m + 1 or rows[-1].get("hashseed") != str(h["hashseeds"][k]):
                raise RuntimeError("fresh printing process %d returned %d of %d rows" % (k, len(rows) - 1, m))
            for j, row in enumerate(rows[:-1]):
                out[k + j * h["n"]] = row["s"]
        return out
    finally:
        for job in h["jobs"]:
            if job[1].poll() is None:
                job[1].kill()
        shutil.rmtree(h["dir"], ignore_errors=True)


def print_in_fresh_processes(scratch, terms, hashseeds, timeout=3600):
    return collect_fresh(start_fresh_processes(scratch, terms, hashseeds), timeout)


def _main(scratch, fin, fout):
    sys.path[:0] = [os.path.join(HERE, "mpi_standin"), scratch]
    import contextlib, io
    from esr.generation.custom_printer import ESRPrinter
    with open(fin) as f, open(fout, "w") as g:
        for line in f:
            term = json.loads(line)
            try:
                e = build(term)
                if nowhere_defined(e):
                    s = None
                else:
                    with contextlib.redirect_stdout(io.StringIO()):
                        s = ESRPrinter().doprint(e)
            except Exception as ex:
                s = {"error": repr(ex)}
            g.write(json.dumps({"s": s}) + "\n")
        g.write(json.dumps({"hashseed": os.environ.get("PYTHONHASHSEED")}) + "\n")


if __name__ == "__main__":
    _main(*sys.argv[1:4])
