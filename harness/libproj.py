"""Projection of a function library to the event trace judged by spec/Library.tla
(C02 classes, C03 map exactness / family, C08 tree code, alignment)."""
import math, re
import numpy as np
import mpmath
from harness import p1

_PAR = re.compile(r"\ba(\d+)\b")


def param_indices(s):
    return sorted({int(m) for m in _PAR.findall(s)})


def nparam(s):
    idx = param_indices(s)
    return (idx[-1] + 1) if idx else 0


# ----------------------------------------------------------------------------- chains
class BadChain(Exception):
    pass


def parse_sub(text):
    """'{a0: -a0, a1: 1/a1}' -> [(key index, value text)] ; 'nan' -> None.  Independent of load_subs."""
    t = text.strip()
    if t == "nan":
        return None
    if not (t.startswith("{") and t.endswith("}")):
        raise BadChain("not a dict: %r" % text)
    body = t[1:-1].strip()
    out = []
    if not body:
        return out
    depth, cur, parts = 0, "", []
    for ch in body:
        if ch in "([":
            depth += 1
        elif ch in ")]":
            depth -= 1
        if ch == "," and depth == 0:
            parts.append(cur)
            cur = ""
        else:
            cur += ch
    parts.append(cur)
    for p in parts:
        if ":" not in p:
            raise BadChain("no colon in %r" % p)
        k, v = p.split(":", 1)
        k = k.strip()
        m = re.fullmatch(r"a(\d+)", k)
        if not m:
            raise BadChain("key is not a parameter: %r" % k)
        out.append((int(m.group(1)), v.strip()))
    return out


def _ns_np(vals):
    ns = {"Abs": np.abs, "sqrt": np.sqrt, "exp": np.exp, "log": np.log, "sign": np.sign, "sin": np.sin,
          "cos": np.cos, "pi": math.pi, "E": math.e, "__builtins__": {}}
    for j, v in enumerate(vals):
        ns["a%d" % j] = v
    return ns


def _ns_mp(vals):
    ns = {"Abs": abs, "sqrt": mpmath.sqrt, "exp": mpmath.exp, "log": mpmath.log, "sign": mpmath.sign,
          "sin": mpmath.sin, "cos": mpmath.cos, "pi": mpmath.pi, "E": mpmath.e, "__builtins__": {}}
    for j, v in enumerate(vals):
        ns["a%d" % j] = v
    return ns


_INT = re.compile(r"(?<![\w.])(\d+)(?![\w.])")


def compose(chain, theta, hp=False):
    """p(theta) for a chain of parsed substitutions (file order), as check_results/convert_params read it:
    p = (a0,..); for each dict in order p = p.subs(dict, simultaneous); then evaluate at theta.
    Numerically that is: apply the LAST dict to theta first.  theta: list of arrays (or mpf)."""
    env = list(theta)
    ok = None
    for sub in reversed(chain):
        new = list(env)
        ns = _ns_mp(env) if hp else _ns_np(env)
        for k, vtext in sub:
            if k >= len(env):
                raise BadChain("key a%d outside the %d parameters" % (k, len(env)))
            if hp:
                vtext = _INT.sub(r"mpf(\1)", vtext)
                ns["mpf"] = mpmath.mpf
            with np.errstate(all="ignore"):
                new[k] = eval(vtext, ns)
        env = new
        if not hp:
            good = np.ones_like(np.asarray(env[0], dtype=float), dtype=bool) if env else True
            for v in env:
                v = np.asarray(v)
                good = good & np.isfinite(v) & (np.abs(v) < p1.BIG) & (np.abs(np.imag(v)) == 0)
            ok = good if ok is None else (ok & good)
    return env, ok


# ----------------------------------------------------------------------------- values of strings
class Strs:
    """cache: string -> (expr or None, values at the P1 points with canonical parameters)"""

    def __init__(self, parser):
        self.parser, self.c = parser, {}

    def expr(self, s):
        if s not in self.c:
            try:
                self.c[s] = self.parser(s)
            except Exception as e:
                self.c[s] = None
        return self.c[s]


def values(expr, a=None):
    """expr (sympy) at x = P1 xs, parameters a (list of arrays) -> complex/float array; None expr -> nan"""
    if expr is None:
        return np.full(p1.NPT, np.nan)
    import sympy
    if expr.has(sympy.zoo) or expr.has(sympy.nan) or expr.has(sympy.oo):
        return np.full(p1.NPT, np.nan)
    a = p1.A if a is None else a
    syms = [sympy.Symbol("x", positive=True)] + [sympy.Symbol("a%d" % j, real=True) for j in range(len(a))]
    names = {s.name: s for s in syms}
    repl = {s: names[s.name] for s in expr.free_symbols if s.name in names and s != names[s.name]}
    if repl:
        expr = expr.xreplace(repl)
    f = sympy.lambdify(syms, expr, modules=["numpy"])
    with np.errstate(all="ignore"):
        v = f(p1.X, *a)
    v = np.asarray(v)
    if v.shape == ():
        v = np.full(p1.NPT, v)
    return v


def values_hp(expr, idx, thetas=None):
    """50-digit values at the points idx; thetas: {i: [mpf,...]} overrides the canonical parameters"""
    import sympy
    out = {}
    for i in idx:
        x, th = p1.POINTS[i]
        th = [mpmath.mpf(t) for t in th] if thetas is None else thetas.get(i)
        if th is None or expr is None:
            out[i] = None
            continue
        sub = {}
        for s in expr.free_symbols:
            if s.name == "x":
                sub[s] = sympy.Float(repr(x), 60)
            else:
                m = re.fullmatch(r"a(\d+)", s.name)
                if m and int(m.group(1)) < len(th):
                    sub[s] = sympy.Float(mpmath.nstr(th[int(m.group(1))], 55), 60)
        try:
            val = sympy.N(expr.subs(sub), 50)
            out[i] = mpmath.mpmathify(val) if val.is_number else None
        except Exception:
            out[i] = None
    return out


def finite_mask(v):
    v = np.asarray(v)
    with np.errstate(all="ignore"):
        return np.isfinite(v) & (np.abs(v) < p1.BIG) & (np.abs(np.imag(v)) <= 1e-9 * np.maximum(1.0, np.abs(np.real(v))))


# ----------------------------------------------------------------------------- C03: exact map
def map_exact(fexpr, uexpr, chain, kU):
    """1: function(x; p(theta)) == unique(x; theta) at the P1 points; 0: not; -1: undecided."""
    theta = p1.A[:max(kU, 1)] if kU else p1.A[:1]
    theta = p1.A           # canonical 4 parameters; the chain touches the first few only
    try:
        pth, ok = compose(chain, theta)
    except BadChain as e:
        return 0, "chain not applicable: %s" % e
    except Exception as e:
        return 0, "chain failed to evaluate: %r" % (e,)
    if ok is None:
        ok = np.ones(p1.NPT, dtype=bool)
    uref = values(uexpr)
    fval = values(fexpr, [np.real(np.asarray(v, dtype=complex)) if np.iscomplexobj(v) else np.asarray(v, dtype=float) for v in pth])
    good = ok & finite_mask(uref)
    if uexpr is None or not finite_mask(uref).any():
        # BOTTOM unique: may only be matched by nowhere-finite functions
        return (1 if not finite_mask(fval).any() else 0), "unique is nowhere finite"

    def hp_ref(idx):
        return values_hp(uexpr, idx)

    def hp_other(idx):
        th = {}
        with mpmath.workdps(50):
            for i in idx:
                try:
                    env, _ = compose(chain, [mpmath.mpf(t) for t in p1.POINTS[i][1]], hp=True)
                    th[i] = env
                except Exception:
                    th[i] = None
            return values_hp(fexpr, idx, th)

    v, info = p1.compare(np.real(uref), good, fval, hp_ref, hp_other)
    return (-1 if v is None else int(v)), info


# ----------------------------------------------------------------------------- C03: same family (lost rows)
def _lsq_fit(target, model, k, starts, rng):
    """min_theta max|model(theta) - target| over real theta in R^k ; returns best relative residual"""
    from scipy.optimize import least_squares
    scale = max(1.0, float(np.max(np.abs(target))))
    best = np.inf

    def resid(th):
        with np.errstate(all="ignore"):
            v = model(th)
        v = np.asarray(v, dtype=complex)
        r = np.where(np.isfinite(v), np.abs(v - target), 1e6)
        return np.minimum(r, 1e6) / scale

    for s in starts:
        try:
            r = least_squares(resid, np.asarray(s, dtype=float), method="lm" if len(target) >= k else "trf", max_nfev=400)
        except Exception:
            continue
        best = min(best, float(np.max(np.abs(r.fun))))
        if best < 1e-7:
            break
    return best


def same_family(fexpr, kF, uexpr, kU, seed=0, tries=3):
    """1 if (numerically) {f(.;phi)} == {u(.;theta)} as families of curves on x>0; 0 if a curve of one
    cannot be reproduced by the other; -1 undecided.  Independent of sympy's algebra."""
    import sympy
    if fexpr is None or uexpr is None:
        return -1, "unparseable"
    rng = np.random.RandomState(1234 + seed)
    xs = np.array(p1.XS + [0.9, 1.1, 1.9, 3.3])
    x = sympy.Symbol("x", positive=True)

    def lam(expr, k):
        syms = [x] + [sympy.Symbol("a%d" % j, real=True) for j in range(max(k, 1))]
        names = {s.name: s for s in syms}
        repl = {s: names[s.name] for s in expr.free_symbols if s.name in names and s != names[s.name]}
        e = expr.xreplace(repl) if repl else expr
        f = sympy.lambdify(syms, e, modules=["numpy"])

        def g(th):
            th = list(th) + [0.0] * (max(k, 1) - len(th))
            v = f(xs, *th)
            v = np.asarray(v, dtype=complex)
            return np.full(len(xs), v) if v.shape == () else v
        return g

    F, U = lam(fexpr, kF), lam(uexpr, kU)

    def cand_starts(src, k):
        # starting points: random, plus simple combinations of the source parameters
        vals = list(src)
        pool = set()
        for a in vals:
            pool.update([a, -a, 1 / a, abs(a), math.log(abs(a)), math.exp(min(a, 20)), a * a, math.sqrt(abs(a))])
        for a in vals:
            for b in vals:
                if a is b:
                    continue
                pool.update([a + b, a - b, a * b, a / b, abs(a) ** b, abs(a * b), abs(a) + abs(b), abs(a) / abs(b),
                             a * abs(b), a / abs(b), a + abs(b), a - abs(b), abs(b) - a])
        pool = [p for p in pool if np.isfinite(p) and abs(p) < 1e6]
        starts = []
        import itertools
        if k == 0:
            return [[]]
        if len(pool) ** k <= 400:
            starts = [list(c) for c in itertools.product(pool, repeat=k)]
        else:
            for _ in range(300):
                starts.append([pool[rng.randint(len(pool))] for _ in range(k)])
        for _ in range(40):
            starts.append(list(rng.uniform(-3, 3, size=k)))
        rng.shuffle(starts)
        starts.sort(key=lambda s: 0)      # keep order (shuffled)
        return starts

    worst = 0.0
    for t in range(tries):
        phi = rng.uniform(0.4, 2.2, size=max(kF, 1)) * rng.choice([-1, 1], size=max(kF, 1))
        with np.errstate(all="ignore"):
            target = F(phi)
        if not np.all(np.isfinite(target)) or np.max(np.abs(target)) > 1e8 or np.max(np.abs(np.imag(target))) > 0:
            continue
        if kU == 0:
            with np.errstate(all="ignore"):
                res = float(np.max(np.abs(U([]) - target)) / max(1.0, np.max(np.abs(target))))
        else:
            res = _lsq_fit(target, U, kU, cand_starts(list(phi[:kF]), kU), rng)
        worst = max(worst, res)
        if res > 1e-6:
            return 0, "curve of the function at params %s is not reproduced by the unique (best residual %.2e)" % (list(np.round(phi[:kF], 4)), res)
        # converse: a curve of the unique is a curve of the function
        theta = rng.uniform(0.4, 2.2, size=max(kU, 1)) * rng.choice([-1, 1], size=max(kU, 1))
        with np.errstate(all="ignore"):
            target = U(theta)
        if not np.all(np.isfinite(target)) or np.max(np.abs(target)) > 1e8 or np.max(np.abs(np.imag(target))) > 0:
            continue
        res = _lsq_fit(target, F, kF, cand_starts(list(theta[:max(kU, 1)]) + [1.0], kF), rng)
        if res > 1e-6:
            return 0, "curve of the unique at params %s is not reproduced by the function (best residual %.2e)" % (list(np.round(theta[:kU], 4)), res)
        return 1, "residuals below 1e-6 both ways"
    return -1, "no finite sample curve"


# ----------------------------------------------------------------------------- events
def events(L, full=True, want_code=True, c02=True, c03=True, progress=None, seed=0):
    """L: harness.lib.Library -> (events, details) ; details[id] holds text for violation messages"""
    ev, det = [], {}
    gen, fit = Strs(p1.parse_gen), Strs(p1.parse_fit)
    ev.append({"id": 0, "kind": "header", "ntrees": len(L.trees), "nfun": len(L.all_eq), "norig": len(L.orig_trees),
               "nextra": len(L.extra_trees), "naifeyn": len(L.aifeyn), "nuniq": len(L.uniq),
               "nmatch": len(L.matches), "nsubs": len(L.inv_subs), "full": bool(full)})
    det[0] = "header " + str(ev[0])
    sid = {}
    if full:
        for u, s in enumerate(L.uniq):
            e = {"id": len(ev), "kind": "uniq", "u": u, "sid": sid.setdefault(s, len(sid)), "params": param_indices(s)}
            det[e["id"]] = "unique %d: %s" % (u, s)
            ev.append(e)
    n = min(len(L.trees), len(L.all_eq))
    for i in range(n):
        labels, fs = L.trees[i], L.all_eq[i]
        e = {"id": len(ev), "kind": "line", "i": i, "labels": labels, "wantCode": bool(want_code), "full": bool(full),
             "clsTree": -1, "clsGen": -1, "clsFit": -1, "match": -1, "kF": nparam(fs), "kU": 0, "lost": False,
             "exact": -1, "family": -1}
        try:
            e["ar"] = [p1.arity(l) for l in labels]
        except p1.Malformed:
            e["ar"] = [2]          # not a valid arity string -> clause tree_well_formed
        info = []
        if c02 and p1.well_formed(labels):
            ref, good = p1.tree_values(labels)
            if good.sum() >= 3:
                e["clsTree"] = 2 * i
                for key, cache in (("clsGen", gen), ("clsFit", fit)):
                    ex = cache.expr(fs)
                    if ex is None:
                        e[key] = 2 * i + 1
                        info.append("%s: string does not parse" % key)
                        continue
                    try:
                        v = values(ex)
                    except Exception as exn:
                        e[key] = 2 * i + 1
                        info.append("%s: not evaluable (%r)" % (key, exn))
                        continue
                    same, why = p1.compare(ref, good, v, lambda idx: p1.tree_values_hp(labels, idx),
                                           lambda idx, ex=ex: values_hp(ex, idx))
                    e[key] = -1 if same is None else (2 * i if same else 2 * i + 1)
                    if same is False:
                        info.append("%s: %s" % (key, why))
        if full and c03 and i < len(L.matches) and i < len(L.inv_subs):
            m = L.matches[i]
            e["match"] = m
            if 0 <= m < len(L.uniq):
                us = L.uniq[m]
                e["kU"] = nparam(us)
                row = [c for c in L.inv_subs[i] if c.strip() != ""]
                try:
                    chain = [parse_sub(c) for c in row]
                except BadChain as exn:
                    chain = "bad"
                    info.append("map: %s" % exn)
                if chain == "bad":
                    e["exact"] = 0
                elif any(c is None for c in chain):
                    e["lost"] = True
                    fam, why = same_family(gen.expr(fs), e["kF"], gen.expr(us), e["kU"], seed=seed)
                    e["family"] = fam
                    if fam == 0:
                        info.append("family: " + why)
                else:
                    ex, why = map_exact(gen.expr(fs), gen.expr(us), chain, e["kU"])
                    e["exact"] = ex
                    if ex == 0:
                        info.append("map: " + why)
        det[e["id"]] = "line %d tree %s function %r match %s unique %r map %s %s" % (
            i, labels, fs, e["match"], L.uniq[e["match"]] if 0 <= e["match"] < len(L.uniq) else None,
            L.inv_subs[i] if i < len(L.inv_subs) else None, "; ".join(info))
        ev.append(e)
        if progress and i % 500 == 0:
            progress(i, n)
    return ev, det


def code_value(code):
    """P3: k ln(nsym) + sum ln c from the model's integers"""
    return code["k"] * math.log(code["nsym"]) + sum(math.log(c) for c in code["consts"])
