"""Projection P1 (DESIGN.md 4.5): semantic class of an expression by numerical evaluation at
fixed generic points.  Independent of the code under test:

  * trees (prefix label lists) are evaluated by the recursive evaluator below with ESR's operator
    semantics (pow, sqrt and log act on absolute values);
  * strings are parsed by the *real* parsers under test (generation-stage table, fitting-stage
    run_sympify) and evaluated with sympy's lambdify / evalf -- P1 adds no parser of its own.

Two value vectors are the same class iff they agree (rtol 1e-9 / atol 1e-12) on every point where the
reference is finite and no intermediate overflowed; mismatches are re-decided in 50-digit mpmath
arithmetic (rule 5 of DESIGN.md section 7); fewer than 3 deciding points -> undecided (None)."""
import json, math, os, re
import numpy as np
import mpmath

HERE = os.path.dirname(os.path.abspath(__file__))
_P = json.load(open(os.path.join(HERE, "points.json")))
XS = _P["x"]
THETAS = _P["theta"]
POINTS = [(x, th) for th in THETAS for x in XS]          # 24 points
NPT = len(POINTS)
X = np.array([p[0] for p in POINTS])
A = [np.array([p[1][j] for p in POINTS]) for j in range(len(THETAS[0]))]

BIG = 1e150
UNARY = {"inv", "square", "cube", "sqrt", "sqrt_abs", "log", "log_abs", "exp", "sin", "tenexp", "log10_abs", "abs"}
BINARY = {"+", "-", "*", "/", "pow"}
_PAR = re.compile(r"a(\d+)$")
_NUM = re.compile(r"[-+]?(\d+(\.\d*)?|\.\d+)([eE][-+]?\d+)?$")


class Malformed(Exception):
    pass


def arity(label):
    if label in UNARY:
        return 1
    if label in BINARY:
        return 2
    if label == "x" or _PAR.match(label) or _NUM.match(label) or re.match(r"[-+]?\d+/\d+$", label):
        return 0
    raise Malformed("unknown label %r" % (label,))


def well_formed(labels):
    """prefix well-formedness: need counter reaches 0 exactly at the end"""
    need = 1
    for k, l in enumerate(labels):
        if need <= 0:
            return False
        try:
            need += arity(l) - 1
        except Malformed:
            return False
    return need == 0 and len(labels) > 0


# ---------------------------------------------------------------- double precision, vectorised
def _leaf(label, x, a):
    if label == "x":
        return x
    m = _PAR.match(label)
    if m:
        return a[int(m.group(1))]
    if "/" in label:
        p, q = label.split("/")
        return np.full_like(x, float(p) / float(q))
    return np.full_like(x, float(label))


def _un(op, v):
    if op == "inv":
        return 1.0 / v
    if op == "square":
        return v * v
    if op == "cube":
        return v * v * v
    if op in ("sqrt", "sqrt_abs"):
        return np.sqrt(np.abs(v))
    if op in ("log", "log_abs"):
        return np.log(np.abs(v))
    if op == "exp":
        return np.exp(v)
    if op == "sin":
        return np.sin(v)
    if op == "tenexp":
        return np.power(10.0, v)
    if op == "log10_abs":
        return np.log(np.abs(v)) / math.log(10.0)
    if op == "abs":
        return np.abs(v)
    raise Malformed(op)


def _bin(op, l, r):
    if op == "+":
        return l + r
    if op == "-":
        return l - r
    if op == "*":
        return l * r
    if op == "/":
        return l / r
    if op == "pow":
        return np.power(np.abs(l), r)
    raise Malformed(op)


def tree_values(labels, x=None, a=None):
    """values of the tree at the P1 points and a mask of points where every intermediate was finite
    and moderate.  Raises Malformed for a label list that is not a well-formed prefix tree."""
    x = X if x is None else x
    a = A if a is None else a
    good = np.ones(len(x), dtype=bool)
    pos = [0]

    def rec():
        if pos[0] >= len(labels):
            raise Malformed("ran out of labels")
        lab = labels[pos[0]]
        pos[0] += 1
        k = arity(lab)
        if k == 0:
            v = _leaf(lab, x, a)
        elif k == 1:
            v = _un(lab, rec())
        else:
            l = rec()
            r = rec()
            v = _bin(lab, l, r)
        nonlocal good
        good = good & np.isfinite(v) & (np.abs(v) < BIG)
        return v

    with np.errstate(all="ignore"):
        v = rec()
    if pos[0] != len(labels):
        raise Malformed("trailing labels")
    return np.asarray(v, dtype=float), good


# ---------------------------------------------------------------- 50-digit fallback
def _mp_tree(labels, x, th):
    pos = [0]

    def rec():
        lab = labels[pos[0]]
        pos[0] += 1
        k = arity(lab)
        if k == 0:
            if lab == "x":
                return mpmath.mpf(x)
            m = _PAR.match(lab)
            if m:
                return mpmath.mpf(th[int(m.group(1))])
            if "/" in lab:
                p, q = lab.split("/")
                return mpmath.mpf(p) / mpmath.mpf(q)
            return mpmath.mpf(lab)
        if k == 1:
            v = rec()
            return {"inv": lambda: 1 / v, "square": lambda: v * v, "cube": lambda: v ** 3,
                    "sqrt": lambda: mpmath.sqrt(abs(v)), "sqrt_abs": lambda: mpmath.sqrt(abs(v)),
                    "log": lambda: mpmath.log(abs(v)), "log_abs": lambda: mpmath.log(abs(v)),
                    "exp": lambda: mpmath.exp(v), "sin": lambda: mpmath.sin(v),
                    "tenexp": lambda: mpmath.mpf(10) ** v, "log10_abs": lambda: mpmath.log10(abs(v)),
                    "abs": lambda: abs(v)}[lab]()
        l = rec()
        r = rec()
        return {"+": lambda: l + r, "-": lambda: l - r, "*": lambda: l * r, "/": lambda: l / r,
                "pow": lambda: abs(l) ** r}[lab]()

    return rec()


def tree_values_hp(labels, idx):
    out = {}
    with mpmath.workdps(50):
        for i in idx:
            x, th = POINTS[i]
            try:
                out[i] = _mp_tree(labels, x, th)
            except Exception:
                out[i] = None
    return out


# ---------------------------------------------------------------- strings through the real parsers
def expr_values(expr, nparam=4):
    """values of a sympy expression (over x, a0..) at the P1 points (double precision)."""
    import sympy
    syms = [sympy.Symbol("x", positive=True)] + [sympy.Symbol("a%d" % j, real=True) for j in range(nparam)]
    # match symbols by name whatever their assumptions (the two parsers use different tables)
    names = {s.name: s for s in syms}
    repl = {s: names[s.name] for s in expr.free_symbols if s.name in names and s != names[s.name]}
    if repl:
        expr = expr.xreplace(repl)
    if expr.has(sympy.zoo) or expr.has(sympy.nan) or expr.has(sympy.oo):
        return np.full(NPT, np.nan)          # BOTTOM: nowhere finite (DESIGN.md 7, rule 5b)
    f = sympy.lambdify(syms, expr, modules=["numpy"])
    with np.errstate(all="ignore"):
        v = f(X, *A[:nparam])
    v = np.asarray(v)
    if v.shape == ():
        v = np.full(NPT, v)
    return v


def expr_values_hp(expr, idx, nparam=4):
    import sympy
    out = {}
    for i in idx:
        x, th = POINTS[i]
        sub = {s: (sympy.Float(repr(x), 60) if s.name == "x" else sympy.Float(repr(th[int(s.name[1:])]), 60))
               for s in expr.free_symbols if s.name == "x" or _PAR.match(s.name)}
        try:
            val = sympy.N(expr.subs(sub), 50)
            out[i] = mpmath.mpmathify(val) if val.is_number else None
        except Exception:
            out[i] = None
    return out


# ---------------------------------------------------------------- comparison
def close(a, b, rtol=1e-9, atol=1e-12):
    return abs(a - b) <= atol + rtol * max(abs(a), abs(b))


def compare(ref, good, other, hp_ref=None, hp_other=None, min_points=3):
    """ref/good from tree_values (or any reference vector with a validity mask); other: vector.
    Returns (verdict, info): verdict True (same class) / False (different) / None (undecided)."""
    other = np.asarray(other)
    idx = [i for i in range(len(ref)) if good[i]]
    if len(idx) < min_points:
        return None, "only %d finite reference points" % len(idx)
    bad = []
    for i in idx:
        o = other[i]
        if isinstance(o, complex) or np.iscomplexobj(o):
            if abs(complex(o).imag) > 1e-9 * max(1.0, abs(complex(o).real)):
                bad.append(i)
                continue
            o = complex(o).real
        if not np.isfinite(o) or not close(float(ref[i]), float(o)):
            bad.append(i)
    if not bad:
        return True, ""
    if hp_ref is None or hp_other is None:
        return False, "differs at points %s (ref %s other %s)" % (bad[:3], [float(ref[i]) for i in bad[:3]], [complex(other[i]) for i in bad[:3]])
    r, o = hp_ref(bad), hp_other(bad)
    still = []
    dropped = 0
    for i in bad:
        if r.get(i) is None or not mpmath.isfinite(r[i]):
            # the reference is not finite at 50 digits: its double value was a cancellation artefact (e.g. 1/(x - 1/(1/x))),
            # so the point cannot decide (DESIGN.md section 7, rule 5)
            dropped += 1
            continue
        if o.get(i) is None:
            still.append(i)
            continue
        try:
            ov = o[i]
            if isinstance(ov, mpmath.mpc):
                if abs(ov.imag) > mpmath.mpf(10) ** -30 * max(1, abs(ov.real)):
                    still.append(i)
                    continue
                ov = ov.real
            if abs(r[i] - ov) > mpmath.mpf(10) ** -25 * max(1, abs(r[i]), abs(ov)):
                still.append(i)
        except Exception:
            still.append(i)
    if len(idx) - dropped < min_points:
        return None, "only %d points with a finite reference at 50 digits" % (len(idx) - dropped)
    if not still:
        return True, "decided in 50-digit arithmetic"
    return False, "differs at points %s: ref %s other %s" % (
        still[:3], [mpmath.nstr(r.get(i), 12) if r.get(i) is not None else None for i in still[:3]],
        [mpmath.nstr(o.get(i), 12) if o.get(i) is not None else None for i in still[:3]])


# ---------------------------------------------------------------- the two real parsers
def parse_gen(s, nparam=4):
    """generation-stage reading: sympify with ESR's symbol table (as initial_sympify does)."""
    import sympy
    from esr.fitting.sympy_symbols import sympy_locs
    locs = dict(sympy_locs)
    for j in range(nparam):
        locs["a%d" % j] = sympy.Symbol("a%d" % j, real=True)
    return sympy.sympify(s, locals=locs)


def parse_fit(s):
    """fitting-stage reading: exactly Likelihood.run_sympify (its own table, quote/newline stripping)."""
    import esr.fitting.likelihood as L
    _, eq, _ = L.Likelihood.run_sympify(object.__new__(L.Likelihood), s)
    return eq
