"""C15 fault replay (DESIGN.md 4.4): inject simplifier.TimeoutException inside the dynamic extent of a chosen
`with time_limit(...)` block of esr/generation/simplifier.py, at the `call` event of the k-th Python-level call
made directly from the frame that opened the block (sympy_simplify / expand_or_factor / check_results).
The exception then unwinds out of the callee into the CALL instruction, exactly like a SIGALRM that fires while
sympy is working.  No repository change is needed: the module attribute `time_limit` is wrapped by the harness."""
import contextlib, io, json, os, sys, traceback

MONITORED = ("sympy_simplify", "expand_or_factor", "check_results")


class Injector:
    def __init__(self, targets):
        self.targets = {tuple(t) for t in targets}      # {(block index, call index)}
        self.block = -1
        self.open = []          # stack of [block index, owner frame, call count, lineno of the with statement]
        self.census = []        # per block: [owner function, with-line, number of call points]
        self.entries = []       # per block: [line of the first statement of the block body, injectable (a simple statement)] or None
        self.fired = []
        self._simple = None

    def simple(self, filename):
        """line -> True for lines on which a simple statement starts"""
        if self._simple is None:
            import ast
            tree = ast.parse(open(filename).read())
            self._simple = {}
            for node in ast.walk(tree):
                if isinstance(node, ast.stmt):
                    self._simple[node.lineno] = isinstance(node, (ast.Assign, ast.AugAssign, ast.AnnAssign, ast.Expr))
        return self._simple

    def install(self, simp):
        inj = self
        orig = simp.time_limit
        exc = simp.TimeoutException

        @contextlib.contextmanager
        def time_limit(seconds):
            f = sys._getframe(1)
            owner = None
            while f is not None:
                if f.f_code.co_name in MONITORED and f.f_code.co_filename.endswith("simplifier.py"):
                    owner = f
                    break
                f = f.f_back
            inj.block += 1
            rec = [inj.block, owner, 0, owner.f_lineno if owner is not None else -1]
            inj.census.append([owner.f_code.co_name if owner is not None else None, rec[3], 0, []])
            inj.entries.append(None)
            inj.open.append(rec)
            old = sys.gettrace()
            old_local = owner.f_trace if owner is not None else None
            if owner is not None:
                sys.settrace(tracer)
                # call index 0 = the block entry: the first statement of the block body (a SIGALRM can fire before anything in the block has
                # run); injected only when that statement is a simple one (an exception raised from the line event of a compound-statement
                # header bypasses the handlers in CPython 3.12, DESIGN.md 4.4)
                state = {"seen": False}

                def line_tracer(frame, event, arg, rec=rec, state=state):
                    if event == "line" and not state["seen"] and frame is rec[1]:
                        state["seen"] = True
                        ok = inj.simple(frame.f_code.co_filename).get(frame.f_lineno, False)
                        inj.entries[rec[0]] = [frame.f_lineno, bool(ok)]
                        if ok and (rec[0], 0) in inj.targets:
                            inj.fired.append([rec[0], 0, "<block entry>", frame.f_lineno])
                            raise exc("Timed out (injected)")
                    return line_tracer
                owner.f_trace = line_tracer
                owner.f_trace_lines = True
            try:
                with orig(seconds):
                    yield
            finally:
                sys.settrace(old)
                if owner is not None:
                    owner.f_trace = old_local
                inj.open.pop()

        def tracer(frame, event, arg):
            if event == "call" and inj.open:
                rec = inj.open[-1]
                if frame.f_back is rec[1]:
                    rec[2] += 1
                    inj.census[rec[0]][2] = rec[2]
                    inj.census[rec[0]][3].append("%s:%d" % (frame.f_code.co_name, rec[1].f_lineno))      # callee and the calling line
                    if (rec[0], rec[2]) in inj.targets:
                        inj.fired.append([rec[0], rec[2], frame.f_code.co_name, rec[1].f_lineno])
                        raise exc("Timed out (injected)")
            return None

        simp.time_limit = time_limit


def gen_with_faults(runname, n, basis, targets, out_path):
    """one generation run (1 rank) with timeouts injected at `targets`; writes census / outcome"""
    import esr.generation.simplifier as simp
    from harness import targets as T
    inj = Injector(targets)
    inj.install(simp)
    buf = io.StringIO()
    status = "ok"
    try:
        with contextlib.redirect_stdout(buf):
            T.gen(runname, n, basis)
    except BaseException as e:
        status = "%s: %s" % (type(e).__name__, e)
        tb = traceback.format_exc()
        buf.write("\n" + tb)
    with open(out_path, "w") as f:
        json.dump({"status": status, "census": inj.census, "entries": inj.entries, "fired": inj.fired, "log": buf.getvalue()[-3000:]}, f)


def gen_many(jobs):
    """jobs: list of (runname, n, basis, targets, out_path, libcopy): sequential runs in this process are NOT
    independent (module state), so each job is run in its own child interpreter by the caller; this helper exists
    for the single-job case."""
    for j in jobs:
        gen_with_faults(*j)
