"""C18 harness: formulas of spec/Formula.tla -> the three real entry points -> observation records
judged by spec/FormulaJudge.tla.

Projections used here (all independent of the code under test):
  * reading of DecoratedNode labels: Add/Sub/Mul/Div are the infix operators + - * /, every other
    label is read lower-cased (Pow -> pow, Inv -> inv, Sqrt -> sqrt, ...) -- the reading fit_from_string
    documents; sympy's symbolic numeric constants E and pi (string_to_node without evalf keeps them) are
    read as their values; applied to the raw list of string_to_node only.
  * category of a label: "x" | "par" (a<digits>) | "num" (decimal literal or p/q) | "sym" (anything else);
    arity of a label from p1.arity (what the *name* means), -1 for a name P1 does not know.
  * P1 class: the model's own tree (Formula!tok) evaluated by p1.tree_values is the function of the
    formula; an ESR label list is the same class iff it agrees at every generic point where the
    reference is finite AND every power base / sqrt / log argument of the formula and of the tree is
    positive ("wherever all power bases are positive"); < 3 such points -> undecided.
  * under replace_floats the new parameters are bound to what stood at the same position without
    replacement (a number's value, or the original parameter's value)."""
import contextlib, io, json, re
import numpy as np
from harness import p1

INFIX = {"Add": "+", "Sub": "-", "Mul": "*", "Div": "/"}
_PAR = re.compile(r"a(\d+)$")
_NUM = re.compile(r"[-+]?(\d+(\.\d*)?|\.\d+)([eE][-+]?\d+)?$")
_FRAC = re.compile(r"[-+]?\d+/\d+$")
POSITIVE_ARG = {"sqrt", "sqrt_abs", "log", "log_abs", "log10_abs"}
SPECIAL = {"Inv", "Square", "Cube", "Sqrt", "Sub", "Div", "inv", "square", "cube", "sqrt", "sqrt_abs"}


SYMBOLIC_NUMBERS = {"E": repr(__import__("math").e), "pi": repr(__import__("math").pi)}   # sympy's symbolic numeric constants


def reading(raw):
    return [INFIX.get(l) or SYMBOLIC_NUMBERS.get(l) or l.lower() for l in raw]


def cat(label):
    if label == "x":
        return "x"
    if _PAR.match(label):
        return "par"
    if _NUM.match(label) or _FRAC.match(label):
        return "num"
    return "sym"


def arity(label):
    try:
        return p1.arity(label)
    except p1.Malformed:
        return -1


def tla_set(xs):
    return "{" + ", ".join(json.dumps(x) for x in xs) + "}"


def tla_seq(xs):
    return "<<" + ", ".join(json.dumps(x) for x in xs) + ">>"


# ----------------------------------------------------------------------------- P1 with the positivity proviso
def _ends(labels):
    """end[p] = index just after the subtree rooted at p (0-based); labels well formed"""
    n = len(labels)
    end = [0] * n
    for p in range(n - 1, -1, -1):
        k = arity(labels[p])
        q = p + 1
        for _ in range(k):
            q = end[q]
        end[p] = q
    return end


def positive_mask(labels):
    """points where every power base and every sqrt / log argument of the tree is positive"""
    end = _ends(labels)
    mask = np.ones(p1.NPT, dtype=bool)
    for p, l in enumerate(labels):
        if l == "pow" or l in POSITIVE_ARG:
            sub = labels[p + 1:end[p + 1]]
            v, g = p1.tree_values(sub)
            with np.errstate(all="ignore"):
                mask &= g & (v > 0)
    return mask


class Ref:
    """the function of a formula: values of the model's tree and the points that may decide"""

    def __init__(self, tok):
        self.tok = list(tok)
        self.v, self.g = p1.tree_values(self.tok)
        self.mask = self.g & positive_mask(self.tok)
        self.bottom = not bool(self.g.any())           # nowhere finite: denotes no function (rule 5b)

    def cls(self, labels):
        """0 same class as the formula (class 0), 1 different, -1 undecided; info text"""
        if not p1.well_formed(labels):
            return -1, "not evaluable"
        try:
            v, g = p1.tree_values(labels)
            good = self.mask & positive_mask(labels)
        except (p1.Malformed, ValueError, ZeroDivisionError, IndexError) as ex:
            return -1, "not evaluable: %r" % (ex,)
        ok, info = p1.compare(self.v, good, v, hp_ref=lambda idx: p1.tree_values_hp(self.tok, idx),
                              hp_other=lambda idx: p1.tree_values_hp(labels, idx))
        if ok is None:
            return -1, info
        return (0 if ok else 1), info


def bind_replaced(rf_labels, plain_labels):
    """the rf tree with every parameter bound to what stood at its (first) position without replacement"""
    if len(rf_labels) != len(plain_labels):
        return None
    first = {}
    for a, b in zip(rf_labels, plain_labels):
        if cat(a) == "par" and a not in first:
            first[a] = b
    return [first[a] if cat(a) == "par" else a for a in rf_labels]


# ----------------------------------------------------------------------------- the real entry points
class Stub:
    """stands in for esr.fitting.fit_single.single_function: records the labels, runs no fit"""

    def __init__(self):
        self.labels = None

    def __call__(self, labels, *a, **k):
        self.labels = list(labels)
        if k.get("return_params"):
            return 0.0, 0.0, []
        return 0.0, 0.0


_STATE = {}


def install():
    """import ESR (scratch copy must be active) and replace single_function by the stub"""
    import esr.generation.generator as g
    import esr.fitting.fit_single as fs
    stub = Stub()
    fs.single_function = stub
    _STATE.update(g=g, fs=fs, stub=stub)
    return g, fs


def _diagnose(s, B, evalf):
    """labels outside the vocabulary in what string_to_node makes of s (for grouping keys only)"""
    g = _STATE["g"]
    try:
        _, nodes, _ = g.string_to_node(s, B, evalf=evalf)
        lab = reading(nodes.to_list(B))
    except Exception:
        return "-"
    flat = set(B[1]) | set(B[2])
    off = sorted({l for l in lab if cat(l) == "sym" and l not in flat})
    if off:
        return "+".join(off)
    if len(lab) == 1 and cat(lab[0]) == "num":
        return "root_number"
    return "-"


def _case(entry, rf, labels, plain, complexity, ref, B, fparams):
    if rf:
        bound = bind_replaced(labels, plain)
        cls, info = ref.cls(bound) if bound is not None else (-1, "length changed")
    else:
        cls, info = ref.cls(labels)
    return {"kind": "conv", "entry": entry, "rf": bool(rf), "labels": labels, "ar": [arity(l) for l in labels],
            "cat": [cat(l) for l in labels], "plain": plain, "pcat": [cat(l) for l in plain],
            "b1": list(B[1]), "b2": list(B[2]), "fparams": fparams, "complexity": complexity,
            "clsFormula": 0 if ref.mask.sum() >= 3 else -1, "clsTree": cls, "info": info}


def observe(job):
    """job: {basis, B, tok, s, style, aif}.  Returns {cases, crashes, raw (string_to_node's list), bottom,
    npoints (generic points where the formula is finite and all its power bases are positive)}."""
    g, fs, stub = _STATE["g"], _STATE["fs"], _STATE["stub"]
    B, s = job["B"], job["s"]
    ref = Ref(job["tok"])
    fparams = sorted({l for l in job["tok"] if cat(l) == "par"})
    out = {"cases": [], "crashes": [], "raw": None, "bottom": ref.bottom, "npoints": int(ref.mask.sum())}
    sink = io.StringIO()
    # (1) string_to_node
    try:
        with contextlib.redirect_stdout(sink):
            _, nodes, c = g.string_to_node(s, B)
            raw = [str(l) for l in nodes.to_list(B)]
        out["raw"] = raw
        lab = reading(raw)
        out["cases"].append(_case("s2n", False, lab, lab, int(c), ref, B, fparams))
    except Exception as ex:
        out["crashes"].append({"entry": "s2n", "exc": type(ex).__name__, "msg": str(ex)[:200], "diag": _diagnose(s, B, False)})
    # (1b) string_to_node(evalf=True): numeric sub-expressions are evaluated to floats before the tree is built
    try:
        with contextlib.redirect_stdout(sink):
            _, nodes, c = g.string_to_node(s, B, evalf=True)
            lab = reading([str(l) for l in nodes.to_list(B)])
        out["cases"].append(_case("s2n_evalf", False, lab, lab, int(c), ref, B, fparams))
    except Exception as ex:
        out["crashes"].append({"entry": "s2n_evalf", "exc": type(ex).__name__, "msg": str(ex)[:200], "diag": _diagnose(s, B, True)})
    # (1c) string_to_node(check_ops=True): parses that use an operator outside the basis are discarded before the shortest is chosen
    try:
        with contextlib.redirect_stdout(sink):
            _, nodes, c = g.string_to_node(s, B, check_ops=True)
            lab = reading([str(l) for l in nodes.to_list(B)])
        out["cases"].append(_case("s2n_ops", False, lab, lab, int(c), ref, B, fparams))
    except Exception as ex:
        # with check_ops the routine may legitimately find no parse inside the basis: not judged
        pass
    # (2) fit_from_string: the relabelling, without and with replace_floats
    got = {}
    for rf in (False, True):
        stub.labels = None
        try:
            with contextlib.redirect_stdout(sink):
                res = fs.fit_from_string(s, B, None, replace_floats=rf)
            got[rf] = [str(l) for l in stub.labels]
            if list(res[2]) != got[rf]:
                raise RuntimeError("stand-in: returned labels differ from the labels handed to single_function")
        except RuntimeError:
            raise
        except Exception as ex:
            out["crashes"].append({"entry": "fit_rf" if rf else "fit", "exc": type(ex).__name__, "msg": str(ex)[:200],
                                   "diag": _diagnose(s, B, True)})
    if False in got:
        out["cases"].append(_case("fit", False, got[False], got[False], -1, ref, B, fparams))
    if True in got and False in got:
        out["cases"].append(_case("fit_rf", True, got[True], got[False], -1, ref, B, fparams))
    # (3) string_to_aifeyn: the reported complexity is the number of labels of the same conversion
    for rf in job.get("aif", ()):
        try:
            with contextlib.redirect_stdout(sink):
                _, k = fs.string_to_aifeyn(s, B, verbose=False, replace_floats=rf)
            if rf in got:
                out["cases"].append({"kind": "count", "entry": "aif_rf" if rf else "aif", "complexity": int(k), "n": len(got[rf])})
        except Exception as ex:
            out["crashes"].append({"entry": "aif_rf" if rf else "aif", "exc": type(ex).__name__, "msg": str(ex)[:200],
                                   "diag": _diagnose(s, B, True)})
    return out


def nontrivial(raw):
    """>= 3 labels and a number, a power or one of the special cases of DecoratedNode.to_list"""
    if raw is None or len(raw) < 3:
        return False
    return any(cat(l) == "num" or l in ("Pow", "pow") or l in SPECIAL for l in raw)
