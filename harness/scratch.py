"""Scratch copy of /repo/esr (current working tree) outside /repo and /verif, and
in-process set-up of sys.path so that ESR runs on the MPI stand-in."""
import atexit, os, shutil, sys, tempfile

HERE = os.path.dirname(os.path.abspath(__file__))
VERIF = os.path.dirname(HERE)
REPO = os.environ.get("ESR_REPO", "/repo")
_made = []


def make(prefix="esrverif_"):
    base = os.environ.get("VERIF_SCRATCH_BASE", tempfile.gettempdir())
    d = tempfile.mkdtemp(prefix=prefix, dir=base)
    shutil.copytree(os.path.join(REPO, "esr"), os.path.join(d, "esr"),
                    ignore=shutil.ignore_patterns("__pycache__", "function_library", "output", "*.pyc"))
    _made.append(d)
    return d


def cleanup():
    for d in _made:
        shutil.rmtree(d, ignore_errors=True)
    del _made[:]


atexit.register(cleanup)


def activate(scratch):
    """Make `import esr` resolve to the scratch copy and `mpi4py` to the stand-in (P=1)."""
    os.environ.setdefault("PYTHONHASHSEED", "0")
    os.environ["ESR_SCRATCH"] = scratch
    for k in ("ESR_STANDIN_SOCK",):
        os.environ.pop(k, None)
    os.environ["ESR_STANDIN_SIZE"] = "1"
    os.environ["ESR_STANDIN_RANK"] = "0"
    sys.path[:0] = [os.path.join(HERE, "mpi_standin"), scratch]
    if VERIF not in sys.path:
        sys.path.append(VERIF)
    for m in list(sys.modules):
        if m == "esr" or m.startswith("esr.") or m == "mpi4py" or m.startswith("mpi4py."):
            del sys.modules[m]


def libdir(scratch, runname, compl=None):
    d = os.path.join(scratch, "esr", "function_library", runname)
    if compl is not None:
        d = os.path.join(d, "compl_%d" % compl)
    return d
