"""Small synthetic data sets (deterministic)."""
import os
import numpy as np


def gauss_file(path, f, n=30, sigma=0.1, seed=1, xlo=0.5, xhi=3.0):
    rng = np.random.RandomState(seed)
    x = np.linspace(xlo, xhi, n)
    y = f(x) + sigma * rng.standard_normal(n)
    np.savetxt(path, np.transpose([x, y, np.full(n, sigma)]))
    return x, y, np.full(n, sigma)


def poisson_file(path, f, n=30, seed=1, xlo=0.5, xhi=3.0):
    rng = np.random.RandomState(seed)
    x = np.linspace(xlo, xhi, n)
    y = rng.poisson(f(x)).astype(float)
    np.savetxt(path, np.transpose([x, y]))
    return x, y
