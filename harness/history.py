"""C16: run a sequence of ESR calls in ONE process (1 rank), recording every file operation with the index of
the call that performed it.  Used through harness/pool.py (fresh process per history)."""
import glob, hashlib, io, json, os, re, shlex, sys, contextlib

_events = []
_cur = [0]
_root = [None]
_likes = {}          # one likelihood object per (class, data, run name, function set) for the whole history, as a user's script has


def _rel(p):
    try:
        q = os.path.realpath(os.fspath(p))
    except Exception:
        return None
    r = _root[0]
    if not q.startswith(r + os.sep):
        return None
    q = os.path.relpath(q, r)
    if q.startswith("esr" + os.sep) and not (q.startswith("esr/function_library") or q.startswith("esr/fitting/output")):
        return None                        # package source
    return q


def _log(ev, path, **kw):
    rp = _rel(path)
    if rp is None or os.path.isdir(os.path.join(_root[0], rp)):
        return
    d = {"call": _cur[0], "ev": ev, "f": rp}
    d.update(kw)
    _events.append(d)


def _system(cmd):
    """project a shell command of ESR (cat/sed/mv/rm/touch with > redirection and `find | sort`) to file events"""
    m = re.search(r"`find\s+(\S+)\s+-name\s+\"([^\"]+)\"", cmd)
    finds = []
    if m:
        finds = sorted(glob.glob(os.path.join(m.group(1), m.group(2))))
        cmd = re.sub(r"`[^`]*`", " ", cmd)
    left, _, right = cmd.partition(">")
    try:
        toks = shlex.split(left)
    except ValueError:
        toks = left.split()
    prog = toks[0] if toks else ""
    paths = [t for t in toks[1:] if "/" in t]
    if prog == "rm":
        for t in paths:
            for f in glob.glob(t):
                _log("remove", f)
        return
    if prog == "mv" and len(paths) == 2:
        _log("open", paths[0], mode="r", existed=os.path.exists(paths[0]))
        _log("open", paths[1], mode="w", existed=os.path.exists(paths[1]))
        _log("remove", paths[0])
        return
    if prog == "touch":
        for t in paths:
            if not os.path.exists(t):
                _log("open", t, mode="w", existed=False)
        return
    for f in finds + [t for t in paths if os.path.exists(t)]:
        _log("open", f, mode="r", existed=True)
    out = right.strip().split()[0] if right.strip() else None
    if out:
        _log("open", out, mode="w", existed=os.path.exists(out))


def _hook(ev, args):
    try:
        if ev == "open":
            p, mode = args[0], args[1]
            if isinstance(p, (str, bytes, os.PathLike)) and isinstance(mode, str):
                m = "a" if "a" in mode else "w" if ("w" in mode or "x" in mode) else "r+" if "+" in mode else "r"
                _log("open", p, mode=m, existed=os.path.exists(p))
        elif ev == "os.remove":
            _log("remove", args[0])
        elif ev == "os.system":
            _system(args[0] if isinstance(args[0], str) else os.fsdecode(args[0]))
    except Exception:
        pass


def _do(call, scratch):
    import numpy as np
    from harness import targets
    op = call["op"]
    if op == "plant_rounds":
        # what an earlier completed generation with MORE deduplication rounds leaves behind in the same directory
        import shutil
        d = os.path.join(scratch, "esr", "function_library", call["runname"], "compl_%d" % call["n"])
        for stem in ("inv_subs_%d_round_%d.txt", "inv_idx_%d_round_%d.txt"):
            src = os.path.join(d, stem % (call["n"], 0))
            if os.path.exists(src):
                for k in (7, 8):
                    shutil.copy(src, os.path.join(d, stem % (call["n"], k)))
        return
    with contextlib.redirect_stdout(io.StringIO()):
        if op == "gen":
            targets.gen(call["runname"], call["n"], call.get("basis"))
        else:
            np.random.seed(call.get("seed", 0))
            opts = {"fit": {"tmax": 120, "Niter_params": [12, 12], "Nconv_params": [3, 2]}, "fisher": {"tmax": 120}, "match": {"tmax": 120}}
            lk = ("gauss", "d.txt", call.get("run", "r"), os.path.join(scratch, call.get("data", "data_r")), call.get("fn_set", "core_maths"))
            if lk not in _likes:
                _likes[lk] = targets.make_like(*lk)
            like = _likes[lk]
            if op == "fit":
                import esr.fitting.test_all as m
                fo = dict(opts["fit"])
                if call.get("prev"):
                    fo["ignore_previous_eqns"] = True
                m.main(call["n"], like, **fo)
            elif op == "fisher":
                import esr.fitting.test_all_Fisher as m
                m.main(call["n"], like, **opts["fisher"])
            elif op == "match":
                import esr.fitting.match as m
                m.main(call["n"], like, **opts["match"])
            elif op == "combine":
                import esr.fitting.combine_DL as m
                m.main(call["n"], like)
            else:
                raise ValueError(op)


def run_history(calls, out_path):
    """calls: list of call dicts; the file events of every call and a digest of all run-data files afterwards."""
    scratch = os.environ["ESR_SCRATCH"]
    _root[0] = os.path.realpath(scratch)
    sys.addaudithook(_hook)
    status = []
    for k, c in enumerate(calls):
        _cur[0] = k + 1
        try:
            _do(c, scratch)
            status.append("ok")
        except BaseException as e:
            status.append("%s: %s" % (type(e).__name__, e))
    _cur[0] = 0
    with open(out_path, "w") as f:
        json.dump({"events": _events, "status": status}, f)


def snapshot(scratch, rels):
    out = {}
    for rel in rels:
        p = os.path.join(scratch, rel)
        if os.path.isdir(p):
            for f in sorted(os.listdir(p)):
                q = os.path.join(p, f)
                if os.path.isfile(q):
                    out[os.path.join(rel, f)] = hashlib.sha1(open(q, "rb").read()).hexdigest()
        elif os.path.isfile(p):
            out[rel] = hashlib.sha1(open(p, "rb").read()).hexdigest()
    return out
