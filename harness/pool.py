"""Run a target over chunks of items in parallel 1-rank processes (each imports ESR from the scratch copy)."""
import json, os, subprocess, sys, tempfile

HERE = os.path.dirname(os.path.abspath(__file__))
PY = "/venv/bin/python"


def parallel(target, chunks_args, scratch, timeout=3600):
    """chunks_args: list of argument tuples, one process each (concurrently).  Returns list of (rc, output tail)."""
    procs = []
    for k, args in enumerate(chunks_args):
        env = dict(os.environ)
        for v in ("ESR_STANDIN_SOCK",):
            env.pop(v, None)
        env.update({"ESR_STANDIN_SIZE": "1", "ESR_STANDIN_RANK": "0", "ESR_SCRATCH": scratch, "PYTHONHASHSEED": "0",
                    "PYTHONDONTWRITEBYTECODE": "1", "OMP_NUM_THREADS": "1", "OPENBLAS_NUM_THREADS": "1", "MKL_NUM_THREADS": "1"})
        d = tempfile.mkdtemp(prefix="pool_", dir=scratch)
        argfile = os.path.join(d, "args.pkl")
        import pickle
        with open(argfile, "wb") as f:
            pickle.dump((target, args), f)
        out = open(os.path.join(d, "out.txt"), "wb")
        p = subprocess.Popen([PY, os.path.join(HERE, "rank_main.py"), argfile], stdout=out, stderr=subprocess.STDOUT, env=env, cwd=scratch)
        out.close()
        procs.append((p, os.path.join(d, "out.txt")))
    res = []
    for p, o in procs:
        try:
            rc = p.wait(timeout=timeout)
        except subprocess.TimeoutExpired:
            p.kill()
            rc = -9
        with open(o, "rb") as f:
            res.append((rc, f.read()[-3000:].decode("utf8", "replace")))
    return res


def chunk(items, n):
    n = max(1, min(n, len(items)))
    return [items[i::n] for i in range(n)]
