"""Coordinator of the MPI stand-in: starts P rank processes, completes their
collectives, records the linearisation order, optionally serialises the ranks
along a schedule (DESIGN.md 4.3 / 9.2).

run_ranks(...) -> dict(
   exit    = {rank: exit code},
   events  = [ {seq, ev:'coll', op, root, plen:[..], digest} | {ev:'yield', rank, kind, info}
               | {ev:'exit', rank, code} | {ev:'note', ...} ],
   status  = 'ok' | 'orphan' | 'mismatch' | 'rank_failed' | 'timeout',
   detail  = str,
   out     = {rank: path of captured stdout+stderr})
"""
import hashlib
import os
import pickle
import random
import selectors
import socket
import struct
import subprocess
import sys
import tempfile
import time

HERE = os.path.dirname(os.path.abspath(__file__))
PY = "/venv/bin/python"


def _digest(obj):
    try:
        return hashlib.sha1(pickle.dumps(obj, protocol=4)).hexdigest()[:12]
    except Exception:
        return "?"


def _plen(x):
    try:
        return len(x)
    except Exception:
        return -1


class _Conn:
    def __init__(self, sock):
        self.sock = sock
        self.buf = bytearray()
        self.rank = None

    def feed(self):
        """read available bytes; return list of complete messages (None = EOF)"""
        try:
            chunk = self.sock.recv(1 << 20)
        except ConnectionResetError:
            chunk = b""
        if not chunk:
            return None
        self.buf += chunk
        msgs = []
        while True:
            if len(self.buf) < 8:
                break
            (n,) = struct.unpack("<Q", self.buf[:8])
            if len(self.buf) < 8 + n:
                break
            msgs.append(pickle.loads(bytes(self.buf[8:8 + n])))
            del self.buf[:8 + n]
        return msgs

    def send(self, obj):
        b = pickle.dumps(obj, protocol=pickle.HIGHEST_PROTOCOL)
        try:
            self.sock.sendall(struct.pack("<Q", len(b)) + b)
        except OSError:           # peer gone / socket already closed: the rank's exit is reported by the process table
            pass


def complete(op, root, payloads, P):
    """Semantics of the five collectives (this is Coll.tla's Complete)."""
    if op == "bcast":
        return [payloads[root]] * P
    if op == "gather":
        allp = [payloads[r] for r in range(P)]
        return [allp if r == root else None for r in range(P)]
    if op == "allgather":
        allp = [payloads[r] for r in range(P)]
        return [allp] * P
    if op == "scatter":
        src = payloads[root]
        if src is None or len(src) != P:
            raise ValueError("scatter: root payload has length %s, need %d" % (_plen(src), P))
        return [src[r] for r in range(P)]
    if op == "barrier":
        return [None] * P
    raise NotImplementedError(op)


class Policy:
    """Chooses which waiting rank runs next in 'sched' mode."""

    def __init__(self, kind="random", seed=0, order=None):
        self.kind = kind
        self.rng = random.Random(seed)
        self.order = list(order or [])
        self.pos = 0

    def pick(self, waiting):
        w = sorted(waiting)
        if self.kind == "exact":          # position i of the order decides pick i (schedule exploration)
            r = self.order[self.pos] if self.pos < len(self.order) else None
            self.pos += 1
            return r if r in waiting else w[0]
        if self.kind == "list":
            while self.pos < len(self.order):
                r = self.order[self.pos]
                self.pos += 1
                if r in waiting:
                    return r
            return w[0]
        if self.kind == "random":
            return self.rng.choice(w)
        if self.kind == "lowfirst":
            return w[0]
        if self.kind == "highfirst":
            return w[-1]
        raise ValueError(self.kind)


def run_ranks(P, target, args, scratch, mode="free", policy=None, timeout=600,
              yield_fs=False, env_extra=None, workdir=None, keep_out=True, log_payload_lens=True):
    tmp = tempfile.mkdtemp(prefix="standin_", dir=scratch)
    sockpath = os.path.join(tmp, "s")
    srv = socket.socket(socket.AF_UNIX, socket.SOCK_STREAM)
    srv.bind(sockpath)
    srv.listen(P)
    argfile = os.path.join(tmp, "args.pkl")
    with open(argfile, "wb") as f:
        pickle.dump((target, args), f)

    procs, outs = {}, {}
    for r in range(P):
        env = dict(os.environ)
        env.update({
            "ESR_STANDIN_SIZE": str(P), "ESR_STANDIN_RANK": str(r), "ESR_STANDIN_SOCK": sockpath,
            "PYTHONHASHSEED": "0", "ESR_SCRATCH": scratch, "PYTHONDONTWRITEBYTECODE": "1",
            "OMP_NUM_THREADS": "1", "OPENBLAS_NUM_THREADS": "1", "MKL_NUM_THREADS": "1",
        })
        if yield_fs:
            env["ESR_STANDIN_YIELD"] = "1"
        else:
            env.pop("ESR_STANDIN_YIELD", None)
        if env_extra:
            env.update(env_extra)
        outp = os.path.join(tmp, "rank_%d.out" % r)
        outs[r] = outp
        fo = open(outp, "wb")
        procs[r] = subprocess.Popen([PY, os.path.join(HERE, "rank_main.py"), argfile],
                                    stdout=fo, stderr=subprocess.STDOUT, env=env,
                                    cwd=workdir or scratch)
        fo.close()

    sel = selectors.DefaultSelector()
    sel.register(srv, selectors.EVENT_READ, "srv")
    conns = {}           # rank -> _Conn
    events = []
    seq = [0]

    def log(ev):
        seq[0] += 1
        ev["seq"] = seq[0]
        events.append(ev)

    pend = {}            # rank -> kind of the yield point it waits at (None: start / return from a collective)
    posted = {}          # rank -> (op, root, payload)
    waiting = {}         # rank -> reply to send when granted   (sched mode)
    running = set()      # ranks currently executing user code
    exited = {}          # rank -> code
    status, detail = "ok", ""
    t0 = time.time()
    sched = (mode == "sched")
    policy = policy or Policy("random", 0)

    def abort_all(st, why):
        nonlocal status, detail
        if status == "ok":
            status, detail = st, why
        for r, c in conns.items():
            if r not in exited:
                c.send(("abort", why))

    def reap():
        for r, p in procs.items():
            if r not in exited and p.poll() is not None:
                exited[r] = p.returncode
                running.discard(r)
                waiting.pop(r, None)
                log({"ev": "exit", "rank": r, "code": p.returncode})

    def try_complete():
        if len(posted) < P:
            return False
        sigs = {(posted[r][0], posted[r][1]) for r in range(P)}
        ev = {"ev": "coll", "op": posted[0][0], "root": posted[0][1],
              "ops": [posted[r][0] for r in range(P)], "roots": [posted[r][1] for r in range(P)],
              "plen": [_plen(posted[r][2]) for r in range(P)]}
        if len(sigs) != 1:
            ev["ev"] = "mismatch"
            log(ev)
            abort_all("mismatch", "ranks disagree on collective: %s" % sorted(sigs))
            return True
        op, root = posted[0][0], posted[0][1]
        try:
            res = complete(op, root, {r: posted[r][2] for r in range(P)}, P)
        except Exception as e:          # e.g. scatter of wrong length
            ev["ev"] = "bad_collective"
            ev["error"] = str(e)
            log(ev)
            abort_all("mismatch", str(e))
            return True
        if op in ("bcast", "scatter"):
            ev["digest"] = _digest(posted[root][2])
        log(ev)
        posted.clear()
        for r in range(P):
            if sched:
                waiting[r] = ("ok", res[r])
            else:
                conns[r].send(("ok", res[r]))
                running.add(r)
        return True

    def grant_next():
        # serialised mode: exactly one rank runs at a time
        if not sched or running or not waiting:
            return
        free = sorted(k for k in waiting if pend.get(k) is None)
        if getattr(policy, "advance_first", False) and free:
            r = free[0]          # a rank that is not at a file-system step runs on to its next one: not a choice point
            forced = True
        else:
            r = policy.pick(set(waiting))
            forced = False
        log({"ev": "grant", "rank": r, "forced": forced, "waiting": sorted(waiting), "pending": {str(k): pend.get(k) for k in waiting}})
        reply = waiting.pop(r)
        pend.pop(r, None)
        running.add(r)
        conns[r].send(reply)

    hello = 0
    while True:
        if time.time() - t0 > timeout:
            abort_all("timeout", "no completion within %ss; posted=%s running=%s" % (
                timeout, {r: posted[r][:2] for r in posted}, sorted(running)))
            break
        reap()
        live = [r for r in range(P) if r not in exited]
        if not live:
            break
        # orphan detection: somebody blocked in a collective that can never complete
        if posted and exited:
            bad = {r: c for r, c in exited.items()}
            st = "rank_failed" if any(c != 0 for c in bad.values()) else "orphan"
            abort_all(st, "ranks %s blocked in %s while ranks %s exited with %s" % (
                sorted(posted), sorted({posted[r][:2] for r in posted}), sorted(bad), bad))
            break
        if status != "ok":
            break
        grant_next()
        for key, _ in sel.select(timeout=0.05):
            if key.data == "srv":
                s, _a = srv.accept()
                c = _Conn(s)
                sel.register(s, selectors.EVENT_READ, c)
                continue
            c = key.data
            msgs = c.feed()
            if msgs is None:
                sel.unregister(c.sock)
                c.sock.close()
                if c.rank is not None:
                    running.discard(c.rank)
                continue
            for m in msgs:
                if m[0] == "hello":
                    c.rank = m[1]
                    conns[c.rank] = c
                    hello += 1
                    if sched:
                        waiting[c.rank] = ("go",)
                    else:
                        c.send(("go",))
                        running.add(c.rank)
                elif m[0] == "coll":
                    running.discard(c.rank)
                    posted[c.rank] = (m[1], m[2], m[3])
                    log({"ev": "post", "rank": c.rank, "op": m[1], "root": m[2]})
                    try_complete()
                elif m[0] == "yield":
                    running.discard(c.rank)
                    log({"ev": "yield", "rank": c.rank, "kind": m[1], "info": m[2]})
                    if sched:
                        waiting[c.rank] = ("ok", None)
                        pend[c.rank] = m[1]
                    else:
                        c.send(("ok", None))
                        running.add(c.rank)
                elif m[0] == "note":
                    log({"ev": "note", "rank": c.rank, "kind": m[1], "info": m[2]})
        # in sched mode wait until all ranks said hello before the first grant
        if sched and hello < P and not exited:
            running.add(-1)
        else:
            running.discard(-1)

    # wind down
    deadline = time.time() + 10
    for r, p in procs.items():
        try:
            p.wait(timeout=max(0.1, deadline - time.time()))
        except subprocess.TimeoutExpired:
            p.kill()
            p.wait()
    reap()
    for r, p in procs.items():
        exited.setdefault(r, p.returncode)
    if status == "ok" and any(c != 0 for c in exited.values()):
        status, detail = "rank_failed", "exit codes %s" % exited
    sel.close()
    srv.close()
    try:
        os.unlink(sockpath)
    except OSError:
        pass
    return {"exit": exited, "events": events, "status": status, "detail": detail, "out": outs, "tmp": tmp}


def tail(path, n=30):
    try:
        with open(path, "rb") as f:
            return b"\n".join(f.read().splitlines()[-n:]).decode("utf8", "replace")
    except OSError:
        return ""


def explore(P, target, make_args, scratch, fs_kinds=("isdir", "mkdir", "makedirs"), max_runs=60, timeout=300):
    """Stateless exploration of the interleavings of file-system steps of P real rank processes: depth-first over the
    coordinator's choice points at which at least two waiting ranks are about to execute a file-system step.
    make_args(k) -> argument tuple of run k (fresh directories).  Returns [(choices, result)]."""
    stack, seen, out = [[]], {()}, []
    while stack and len(out) < max_runs:
        prefix = stack.pop()
        pol = Policy("exact", order=prefix)
        pol.advance_first = True
        res = run_ranks(P, target, make_args(len(out)), scratch, mode="sched", policy=pol, yield_fs=True, timeout=timeout)
        grants = [e for e in res["events"] if e["ev"] == "grant" and not e.get("forced")]      # the choice points
        trace = [e["rank"] for e in grants]
        out.append((trace, res))
        for i in range(len(prefix), len(grants)):
            alts = [int(k) for k, v in grants[i]["pending"].items() if v in fs_kinds]
            if len(alts) >= 2:
                for a in alts:
                    if a != trace[i]:
                        newp = tuple(trace[:i] + [a])
                        if newp not in seen:
                            seen.add(newp)
                            stack.append(list(newp))
    return out
