"""Evidence files (/verif/evidence/<id>.json), verdict lines, known findings."""
import json, os, sys, time

VERIF = os.path.dirname(os.path.dirname(os.path.abspath(__file__)))
EVID = os.path.join(VERIF, "evidence")
REPLAYS = os.path.join(VERIF, "replays")


def seed():
    try:
        return int(os.environ.get("VERIF_SEED", "0"))
    except ValueError:
        return 0


def known_findings():
    p = os.path.join(VERIF, "known_findings.json")
    if not os.path.exists(p):
        return {"findings": [], "fixed": []}
    return json.load(open(p))


class Run:
    """Collects coverage and violations for one check run and writes the evidence file."""

    def __init__(self, pid, tier, level):
        self.pid, self.tier, self.level = pid, tier, level
        self.t0 = time.time()
        self.cov = {"evaluations": 0, "distinct_nontrivial": 0, "states": 0, "transitions": 0,
                    "traces_validated_against_impl": 0, "samples": [], "rule": "", "parts": {}}
        self.assumptions = []
        self.violations = []          # (key, text, replay_obj)
        self.known = []
        self._keys = {}
        self.kf = [f for f in known_findings().get("findings", []) if f.get("property") == pid]

    # --- coverage -----------------------------------------------------------
    def add_tlc(self, res, part):
        self.cov["states"] += int(res["distinct"])
        self.cov["transitions"] += int(res["generated"])
        self.cov["parts"].setdefault(part, {}).update(
            {"tlc_distinct_states": res["distinct"], "tlc_states_generated": res["generated"],
             "tlc_depth": res["depth"], "tlc_wall_s": round(res["wall_s"], 2)})

    def add(self, part, evaluations=0, nontrivial=0, traces=0, **kw):
        self.cov["evaluations"] += int(evaluations)
        self.cov["distinct_nontrivial"] += int(nontrivial)
        self.cov["traces_validated_against_impl"] += int(traces)
        d = self.cov["parts"].setdefault(part, {})
        d["evaluations"] = d.get("evaluations", 0) + int(evaluations)
        d["distinct_nontrivial"] = d.get("distinct_nontrivial", 0) + int(nontrivial)
        d.update(kw)

    def sample(self, s, limit=6):
        if len(self.cov["samples"]) < limit:
            self.cov["samples"].append(s)

    # --- verdicts -----------------------------------------------------------
    def violation(self, key, text, replay=None):
        """key identifies the failing case; matched against known_findings.json (prefix match on 'key')."""
        for f in self.kf:
            if key == f["key"] or (f.get("prefix") and key.startswith(f["key"])):
                if f["key"] not in [k[0] for k in self.known]:
                    self.known.append((f["key"], f["what"]))
                return False
        if key in self._keys:
            self._keys[key] += 1
            return True
        self._keys[key] = 1
        self.violations.append((key, text, replay))
        return True

    def finish(self, exhaustive=None, extra=None):
        # evidence/ holds the listed properties only; additional checks (X..) write next to it
        evid = EVID if self.pid.startswith("C") else os.path.join(VERIF, "extra")
        os.makedirs(evid, exist_ok=True)
        cov = self.cov
        if exhaustive is not None:
            cov["exhaustive"] = bool(exhaustive)
        if extra:
            cov.update(extra)
        ev = {"property_id": self.pid, "tier": self.tier, "seed": seed(), "level": self.level,
              "coverage": cov, "assumptions": self.assumptions, "wall_s": round(time.time() - self.t0, 2),
              "violations": len(self.violations), "known_findings_hit": [k for k, _ in self.known]}
        with open(os.path.join(evid, self.pid + ".json"), "w") as f:
            json.dump(ev, f, indent=1, default=str)
        for k, what in self.known:
            print("KNOWN-FINDING: property=%s %s" % (self.pid, what))
        if self.violations:
            os.makedirs(REPLAYS, exist_ok=True)
            seen = set()
            for n, (key, text, replay) in enumerate(self.violations[:20]):
                safe = "".join(c if c.isalnum() or c in "-_." else "_" for c in key)[:80]
                path = os.path.join(REPLAYS, "%s_%s.json" % (self.pid, safe or n))
                if path in seen:
                    continue
                seen.add(path)
                with open(path, "w") as f:
                    json.dump({"property": self.pid, "key": key, "text": text, "replay": replay}, f, indent=1, default=str)
                print("VIOLATION property=%s replay=%s" % (self.pid, path))
                print("  " + text[:600])
            print("FAIL %s: %d violation(s)" % (self.pid, len(self.violations)))
            return 1
        print("PASS %s tier=%s evaluations=%d states=%d traces=%d wall=%.1fs" % (
            self.pid, self.tier, cov["evaluations"], cov["states"], cov["traces_validated_against_impl"],
            time.time() - self.t0))
        return 0
