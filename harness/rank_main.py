"""Bootstrap of one rank process of the stand-in (started by coord.run_ranks)."""
import os, sys, pickle, traceback

HERE = os.path.dirname(os.path.abspath(__file__))
VERIF = os.path.dirname(HERE)
SCRATCH = os.environ["ESR_SCRATCH"]
sys.path[:0] = [os.path.join(HERE, "mpi_standin"), SCRATCH, VERIF]


def _install_yields(comm, kinds):
    import builtins
    root = os.path.realpath(SCRATCH)

    pkg = os.path.join(root, "esr") + os.sep
    data_ok = (os.path.join(root, "esr", "function_library"), os.path.join(root, "esr", "fitting", "output"))

    def inside(p):
        # scheduling points are file-system calls on run data, not on the package source (imports)
        try:
            q = os.path.realpath(os.fspath(p))
        except Exception:
            return False
        if not q.startswith(root + os.sep):
            return False
        if q.startswith(pkg) and not q.startswith(data_ok):
            return False
        return True

    def rel(p):
        try:
            return os.path.relpath(os.path.realpath(os.fspath(p)), root)
        except Exception:
            return str(p)

    if "dir" in kinds:
        _isdir, _mkdir, _makedirs = os.path.isdir, os.mkdir, os.makedirs

        depth = [0]          # nested calls (os.makedirs calls os.mkdir / os.path.isdir) are one step

        def wrap(kind, fn):
            def w(p, *a, **k):
                if depth[0] == 0 and inside(p):
                    comm.yield_point(kind, rel(p))
                depth[0] += 1
                try:
                    return fn(p, *a, **k)
                finally:
                    depth[0] -= 1
            return w

        isdir, mkdir, makedirs = wrap("isdir", _isdir), wrap("mkdir", _mkdir), wrap("makedirs", _makedirs)
        os.path.isdir, os.mkdir, os.makedirs = isdir, mkdir, makedirs
    if "open" in kinds or "system" in kinds:
        def hook(ev, args):
            if ev == "open" and "open" in kinds:
                p = args[0]
                if isinstance(p, (str, bytes)) and inside(p):
                    comm.yield_point("open:" + str(args[1]), rel(p))
            elif ev == "os.system" and "system" in kinds:
                comm.yield_point("system", str(args[0])[:200])
        sys.addaudithook(hook)


def main():
    with open(sys.argv[1], "rb") as f:
        target, args = pickle.load(f)
    from mpi4py import MPI
    kinds = [k for k in os.environ.get("ESR_STANDIN_YIELD", "").split(",") if k and k != "1"]
    if os.environ.get("ESR_STANDIN_YIELD") == "1":
        kinds = ["dir"]
    if kinds:
        _install_yields(MPI.COMM_WORLD, kinds)
    modname, fn = target.split(":")
    try:
        mod = __import__(modname, fromlist=[fn])
        getattr(mod, fn)(*args)
    except SystemExit:
        raise
    except BaseException:
        traceback.print_exc()
        sys.stdout.flush()
        sys.stderr.flush()
        os._exit(1)
    sys.stdout.flush()
    sys.stderr.flush()
    os._exit(0)


main()
