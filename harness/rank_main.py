"""Bootstrap of one rank process of the stand-in (started by coord.run_ranks)."""
import os, sys, pickle, traceback

HERE = os.path.dirname(os.path.abspath(__file__))
VERIF = os.path.dirname(HERE)
SCRATCH = os.environ["ESR_SCRATCH"]
sys.path[:0] = [os.path.join(HERE, "mpi_standin"), SCRATCH, VERIF]


def _install_yields(comm, kinds):
    import builtins
    root = os.path.realpath(SCRATCH)

    def inside(p):
        try:
            return os.path.realpath(os.fspath(p)).startswith(root)
        except Exception:
            return False

    def rel(p):
        try:
            return os.path.relpath(os.path.realpath(os.fspath(p)), root)
        except Exception:
            return str(p)

    if "dir" in kinds:
        _isdir, _exists, _mkdir, _makedirs = os.path.isdir, os.path.exists, os.mkdir, os.makedirs

        def isdir(p):
            if inside(p):
                comm.yield_point("isdir", rel(p))
            return _isdir(p)

        def exists(p):
            if inside(p):
                comm.yield_point("exists", rel(p))
            return _exists(p)

        def mkdir(p, *a, **k):
            if inside(p):
                comm.yield_point("mkdir", rel(p))
            return _mkdir(p, *a, **k)

        def makedirs(p, *a, **k):
            if inside(p):
                comm.yield_point("makedirs", rel(p))
            return _makedirs(p, *a, **k)

        os.path.isdir, os.path.exists, os.mkdir, os.makedirs = isdir, exists, mkdir, makedirs
    if "open" in kinds or "system" in kinds:
        def hook(ev, args):
            if ev == "open" and "open" in kinds:
                p = args[0]
                if isinstance(p, (str, bytes)) and inside(p):
                    comm.yield_point("open:" + str(args[1]), rel(p))
            elif ev == "os.system" and "system" in kinds:
                comm.yield_point("system", str(args[0])[:200])
        sys.addaudithook(hook)


def main():
    with open(sys.argv[1], "rb") as f:
        target, args = pickle.load(f)
    from mpi4py import MPI
    kinds = [k for k in os.environ.get("ESR_STANDIN_YIELD", "").split(",") if k and k != "1"]
    if os.environ.get("ESR_STANDIN_YIELD") == "1":
        kinds = ["dir"]
    if kinds:
        _install_yields(MPI.COMM_WORLD, kinds)
    modname, fn = target.split(":")
    try:
        mod = __import__(modname, fromlist=[fn])
        getattr(mod, fn)(*args)
    except SystemExit:
        raise
    except BaseException:
        traceback.print_exc()
        sys.stdout.flush()
        sys.stderr.flush()
        os._exit(1)
    sys.stdout.flush()
    sys.stderr.flush()
    os._exit(0)


main()
