#!/venv/bin/python
"""Regenerates MANIFEST.json from the table below (kept valid at all times)."""
import json, os
HERE = os.path.dirname(os.path.abspath(__file__))
CHECKS = {}
NA = {}


def chk(pid, cat, text, note, technique, ref):
    CHECKS[pid] = dict(property_id=pid, quick_cmd="./check %s --tier quick" % pid,
                       thorough_cmd="./check %s --tier thorough" % pid,
                       evidence_file="/verif/evidence/%s.json" % pid,
                       replay_cmd_template="./check %s --replay {path}" % pid, engine="tlc",
                       level_claimed=dict(category=cat, text=text, design_ref=ref), level_note=note, technique=technique)


exec(open(os.path.join(HERE, "manifest_table.py")).read())

props = [json.loads(l)["id"] for l in open(os.path.join(HERE, "properties.jsonl"))]
for p in props:
    if p not in CHECKS and p not in NA:
        NA[p] = "check not built yet in this session (work in progress; see DESIGN.md section 5)"
m = dict(version=1,
         setup_cmd="./setup.sh",
         hooks=dict(guard="ESR_VERIF", enable="ESR_VERIF=1 ESR_VERIF_BASIS='<json basis>' and run name verif_* (set by the harness; no build step, ESR is run from a scratch copy of /repo/esr on the MPI stand-in)",
                    baseline_off_cmd="cd /repo && env -u ESR_VERIF /venv/bin/python -m pytest -ra -q -p no:cacheprovider --timeout=900 --continue-on-collection-errors",
                    source_commits=HOOK_COMMITS, add_only=True),
         engines=[dict(name="tlc", path="/verif/spec", serves_properties=sorted(CHECKS),
                       kind_free_text="explicit TLA+ specification (spec/*.tla) model-checked with TLC 1.8 and bound to the implementation: TLC-enumerated states/behaviours replayed into the real code, observations of the real code judged by TLC (one state per recorded case / trace validation)")],
         checks=[CHECKS[p] for p in props if p in CHECKS],
         notes=NOTES,
         not_applicable=[dict(property_id=p, reason=NA[p]) for p in props if p in NA])
json.dump(m, open(os.path.join(HERE, "MANIFEST.json"), "w"), indent=1)
print("MANIFEST.json: %d checks, %d not_applicable" % (len(m["checks"]), len(m["not_applicable"])))
